#!/bin/sh
# Idempotent, offline: overlay venv of /venv with z3-solver (+cvc5) from the local wheelhouse.
set -e
HERE="$(cd "$(dirname "$0")" && pwd)"
VENV="$HERE/.venv"
WHEELS=/opt/veriftools/wheels
if [ ! -x "$VENV/bin/python" ] || ! "$VENV/bin/python" -c "import z3" >/dev/null 2>&1; then
    rm -rf "$VENV"
    /venv/bin/python -m venv "$VENV"
    SP="$("$VENV/bin/python" -c 'import sysconfig; print(sysconfig.get_paths()["purelib"])')"
    printf '%s\n' "/venv/lib/python3.12/site-packages" > "$SP/_verif_overlay.pth"
    PIP_NO_INDEX=1 "$VENV/bin/python" -m pip install --quiet --no-index --find-links "$WHEELS" z3-solver >/dev/null
    PIP_NO_INDEX=1 "$VENV/bin/python" -m pip install --quiet --no-index --find-links "$WHEELS" cvc5 >/dev/null 2>&1 || true
fi
"$VENV/bin/python" -c "import z3, octoprint" 
