#!/bin/sh
for p in $(pgrep -f "tools/bench\.py"); do kill $p 2>/dev/null; done
