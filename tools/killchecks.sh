#!/bin/sh
for p in $(pgrep -f "harness\.main"); do kill $p 2>/dev/null; done
