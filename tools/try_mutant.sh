#!/bin/sh
# usage: tools/try_mutant.sh <patch.diff> <ID> [<ID>...]   (applies to /repo, runs checks, reverts)
P="$1"; shift
cd /verif || exit 2
git -C /repo diff --quiet || { echo "/repo not clean"; exit 2; }
git -C /repo apply "$P" 2>/dev/null || (cd /repo && patch -p1 -F3 -s --no-backup-if-mismatch < "$P") || { echo "patch does not apply"; git -C /repo checkout -- .; exit 2; }
for id in "$@"; do
  T0=$(date +%s)
  ./check "$id" > "/tmp/mut_$id.log" 2>&1; rc=$?
  T1=$(date +%s)
  echo "== $id rc=$rc ($((T1-T0))s): $(grep -E '^(VIOLATION|INCONCLUSIVE)' /tmp/mut_$id.log | head -2 | tr '\n' ' ') kf=$(grep -c '^KNOWN' /tmp/mut_$id.log)"
done
git -C /repo checkout -- .
git -C /verif checkout -- evidence 2>/dev/null
