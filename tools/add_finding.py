#!/usr/bin/env python3
"""tools/add_finding.py <replay.json> <KF-id> <property> <predicate> <what> <scenario_class>  (development aid;
the checks themselves never write known_findings.json)."""
import json, shutil, sys, os
V = os.path.dirname(os.path.dirname(os.path.abspath(__file__)))
rp, kid, prop, pred, what, cls = sys.argv[1:7]
dst = "findings/%s.%s.json" % (kid, prop)
shutil.copy(rp, os.path.join(V, dst))
p = os.path.join(V, "known_findings.json")
d = json.load(open(p))
d["findings"] = [f for f in d["findings"] if not (f["id"] == kid and f["property"] == prop)]
d["findings"].append({"id": kid, "property": prop, "status": "open", "what": what, "predicate": pred,
                      "scenario_class": cls, "witness": dst})
json.dump(d, open(p, "w"), indent=1)
open(p, "a").write("\n")
print("added", kid, prop)
