#!/usr/bin/env python3
"""Regenerate /verif/MANIFEST.json from the table below (single source of truth)."""
import json
import os

VERIF = os.path.dirname(os.path.dirname(os.path.abspath(__file__)))

TECH = ("symbolic execution of the repository's Python source (symx proxies) with z3 deciding every "
        "branch and obligation; ")

# id -> (design_ref, technique, level text, level note)   ; only ids present here are claimed
CLAIMED = {
    "C17": ("DESIGN.md 9/C17",
            TECH + "QF_NRA queries over unconstrained real parameters",
            "Bounded symbolic model checking of both region classes: every feasible path of the real "
            "constructors/containsPoint/containsRegion is explored with all parameters and the test point as "
            "unconstrained reals; z3 proves on each path that membership equals the closed-set oracle and that "
            "reported containment implies point-set inclusion (all four type pairs, all corner orderings).",
            "Floats modelled as reals; math.hypot replaced by its contract (h>=0, h*h=a*a+b*b) encoded "
            "polynomially; z3 4.x/5.x soundness; non-finite parameters outside the claim."),
    "C12": ("DESIGN.md 9/C12",
            TECH + "one inductive step of the real API handlers from an arbitrary registry; the witness point is a solver variable (QF_NRA)",
            "Bounded symbolic model checking, inductive step: from an arbitrary registry of up to R regions (either type, "
            "arbitrary real geometry, distinct ids, ids may be falsy) with print active and shrinking disallowed, ONE request "
            "with arbitrary command/type/id/geometry is executed by the real on_api_command; z3 proves for every point that "
            "excluded-before implies excluded-after, that deletes are refused and that refused requests change nothing.",
            "Floats as reals; hypot contract; OctoPrint injections (current_user, jsonify, settings, plugin manager, logger) "
            "stubbed; R<=2 quick / 3 thorough regions; sequences follow by induction over the step (invariant: ids distinct, from C13)."),
    "C13": ("DESIGN.md 9/C13",
            TECH + "one inductive step (API request or event) from an arbitrary registry, exhaustive over the request alphabet",
            "Bounded symbolic model checking, inductive step over requests and events: ids stay unique (uuid stub may collide), "
            "rejected/anonymous requests leave the GET response unchanged and send nothing, every change of the list is "
            "followed by exactly one notification whose payload equals the GET response in order.",
            "Same stubs as C12; observations only through on_api_command / on_api_get / send_plugin_message; R<=2 quick / 3 thorough."),
    "C02": ("DESIGN.md 9/C02, 13.7",
            TECH + "bounded symbolic runs (BSR) of the real handler/state/retraction objects on programs with concrete skeleton and symbolic numbers, plus an inductive step",
            "Bounded symbolic model checking: after the real G28 prologue, every program of K commands over six shape alphabets "
            "(moves incl. repeated/valueless/leading-dot/signed words, retraction cycles, frame changes, other codes, arcs, G92 "
            "re-basing) with all numbers and up to R region geometries as solver variables is run through the real "
            "GcodeHandlers.handleGcode; under the assumption (stated before each command) that its destination is outside every "
            "region -- or exclusion disabled -- z3 shows the result is always 'unchanged' or the identical one-element list.",
            "Floats as reals; planArc/computeArcCenterOffsets stubbed by arbitrary sample points / centre offsets (C16's subject); "
            "K=2 (3 for retraction alphabet) quick, K=3/4 thorough; R=1 quick, 2 thorough; M206 and relative-mode arcs outside; "
            "programs with G92 X/Y/Z are assumed away while known finding KF-G92-xyz-offset is open. Inductive step: one command "
            "from an arbitrary state with 'tracked frame = file frame, not excluding, nothing pending, no skipped recovery' is "
            "forwarded verbatim and re-establishes the invariant (any program length)."),
}


PIPE_NOTE = ("Floats as reals; numbers enter through numeric-key literals (the parser's reading of spellings is C19's subject); "
             "planArc/computeArcCenterOffsets stubbed by arbitrary samples/offsets unless stated; logger stubbed; ")


def _bsr(text):
    return ("Bounded symbolic model checking (bounded symbolic runs): the real GcodeHandlers/ExcludeRegionState/"
            "RetractionState/Position objects process programs with a concrete command skeleton and symbolic numbers and "
            "region geometry; two reference printers (file vs. filter output) give the oracle; " + text)


CLAIMED.update({
    "C01": ("DESIGN.md 9/C01, 13.7", TECH + "bounded symbolic runs against a reference printer plus an inductive step from an arbitrary invariant state",
            _bsr("z3 shows per path that no executed element moves X/Y into a region and that nothing moves or pushes "
                 "filament while the oracle's episode is open; region additions interleaved with the stream."),
            PIPE_NOTE + "K=2 over five alphabets and K=3 episode templates (quick and thorough; thorough with rectangle and disc regions throughout); one region plus one added "
            "mid-stream; exclusion enabled throughout; two known findings assumed away by scenario predicates. The inductive "
            "step (one command of 20 shapes from an arbitrary state satisfying the stated coupling invariant, invariant "
            "re-established) extends the claim to programs of every length over that alphabet."),
    "C03": ("DESIGN.md 9/C03, 13.7", TECH + "bounded symbolic runs against a reference printer plus an inductive step from an arbitrary invariant state",
            _bsr("after every move whose destination is outside all regions z3 shows P's X/Y/Z, mode and units equal V's and "
                 "that the re-positioning travel happens at max(previous Z, target Z)."),
            PIPE_NOTE + "templates enter/inside/leave, frame/enter/leave, arcs, any^3 (quick), K=4 (thorough); one region; "
            "two known findings assumed away (relative exit, entering move with Z); inductive step as for C01 (any program length "
            "over the 20-shape alphabet)."),
    "C04": ("DESIGN.md 9/C04", TECH + "bounded symbolic runs over role-structured programs (matched equal-length cycles by construction)",
            _bsr("z3 shows the printer's E register equals the file's whenever no episode is open, every forwarded printing "
                 "move pushes the file's amount, suppressed moves push nothing."),
            PIPE_NOTE + "absolute extrusion; one symbolic retraction length; K=3 all roles, K=5 core roles, K=4 firmware (quick); "
            "two known findings assumed away (owed recovery before a printing move; retraction dropped while a recovery is owed). "
            "Inductive step over the three retraction classes (none / retracted / recovery owed), inside and outside an episode: any "
            "program length for E-style retraction."),
    "C05": ("DESIGN.md 9/C05", TECH + "bounded symbolic runs over role-structured programs",
            _bsr("z3 shows physical retraction depth never exceeds the deepest requested, is never shallower than the file's, "
                 "equals the file's when a forwarded printing move extrudes; firmware G10/G11 alternate, keep parity and parameters."),
            PIPE_NOTE + "same programs and inductive step as C04; depth = high-water mark minus filament position of each reference "
            "printer; one known finding (retraction dropped while a recovery is owed) assumed away."),
    "C06": ("DESIGN.md 9/C06", TECH + "bounded symbolic runs through the real plugin hooks with configured scripts and deferred codes",
            _bsr("for every mode assignment, D occurrences with symbolic parameters and each of four endings z3 shows the flush "
                 "equals the deferred-code model (first/last/merge/exclude), scripts appear exactly once in the right place and "
                 "nothing leaks into the next episode."),
            "OctoPrint injections stubbed; two fixed multi-line scripts through the real _splitGcodeScript; D=2 quick / 3 thorough."),
    "C07": ("DESIGN.md 9/C07", TECH + "format tokens keep numbers symbolic through str()/format(); CPython's repr contract decides exponent notation",
            _bsr("every command the filter synthesises is re-read by an independent RS274 reader: one code, distinct letters, "
                 "numbers; for every number produced by a repr-style conversion z3 shows the value is outside CPython's "
                 "exponent range on that path (both branches of formatNumber explored); values read back equal the file's."),
            PIPE_NOTE + "repr contract (exponent iff v!=0 and (|v|<1e-4 or |v|>=1e16); [.N]f never) validated concretely; round-off-only "
            "tiny values do not exist in real arithmetic: they are covered by a fixed corpus of five concrete programs executed "
            "with floats on the pristine code (reported separately in the evidence, not solver-decided)."),
    "C09": ("DESIGN.md 9/C09", TECH + "bounded symbolic runs with the real planArc/computeArcCenterOffsets under linear over-approximating trig contracts",
            _bsr("over a wide alphabet (missing/repeated/valueless words, signs, leading-dot numbers, all arc forms, G10 S/P, "
                 "bare G92, M206, unknown codes) z3 explores every feasible path; an exception escaping the real code or a "
                 "result outside the hook protocol is a violation; both the hook and StreamProcessor.process_line entry points."),
            "Floats as reals (no overflow); atan2/cos/sin/hypot by linear facts that hold of the real functions; arc segment count "
            "concretised over 0..S (S=2/3), longer arcs cut; K=2."),
    "C14": ("DESIGN.md 9/C14", TECH + "bounded symbolic runs through the real plugin hooks with @-command steps",
            _bsr("with enable/disable/other/custom @-commands (isStreaming nondeterministic) z3 shows: forwarded unchanged while "
                 "disabled; a mid-episode disable re-synchronises the printer; after re-enabling the filter's decision equals the "
                 "oracle's from the true position; non-matching or streaming commands change nothing."),
            PIPE_NOTE + "templates of 3-4 steps quick, 5 thorough; default patterns plus an unanchored custom pair; relative-exit known finding "
            "assumed away; inductive step from the three state classes disabled / enabled-outside / enabled-inside (any program length)."),
})

CLAIMED.update({
    "C08": ("DESIGN.md 9/C08", TECH + "relational lockstep: two instances of the real code on two encodings of one symbolic tool path inside the same path condition",
            "Bounded symbolic model checking, relational: one abstract path of K symbolic native targets is rendered in mm/absolute and, "
            "from a symbolic switch position on, in inches / relative coordinates / after a G92 re-basing / translated together with the "
            "regions; both renderings run through separate real handler+state instances; z3 shows equal decisions after every step and "
            "equal physical end positions.",
            PIPE_NOTE + "K=3 (thorough: rectangle and disc regions in every encoding), one region, G1 vocabulary (no arcs); three known findings assumed away (relative exit, "
            "G92 X/Y/Z offset sign, entering move with Z)."),
    "C10": ("DESIGN.md 9/C10", TECH + "relational: used plugin vs. fresh plugin after PrintStarted, state comparison plus probe program",
            "Bounded symbolic model checking, relational: plugin A lives through every history of H steps over a 16-item alphabet "
            "(events, entering/leaving moves, deferred code, disable @-command, G20, G91, retract/recover, G92 E, M206, G10, Z/feed "
            "changes), then PrintStarted; a fresh plugin B gets the same regions/settings and PrintStarted; z3 shows every tracked "
            "attribute equal and the results of a K-command probe program equal as RS274 readings.",
            "OctoPrint injections stubbed; H=2,K=1 quick / H=3,K=2 thorough; attribute equality implies behavioural equality by determinism."),
    "C11": ("DESIGN.md 9/C11", TECH + "bounded symbolic runs over OctoPrint events with hook probes, exhaustive over the event alphabet",
            "Bounded symbolic model checking: from four plugin pre-states every sequence of K events (11-item alphabet incl. a settings "
            "flip) is delivered to the real on_event; after each step the lifecycle machine (active flag, region clearing) is compared, and "
            "while no print is active the three hooks are probed: G-code results None, nothing sent, script hook None, tracked state "
            "structurally unchanged.",
            "OctoPrint injections stubbed; events delivered sequentially (threads not modelled); K=3 quick / 4 thorough."),
    "C15": ("DESIGN.md 9/C15", TECH + "bounded symbolic runs of script-hook invocations and end events after a symbolic program",
            "Bounded symbolic model checking: after a program that ends inside or outside an episode (optional Z change and deferred code), "
            "every sequence of 3 (quick) / 4 (thorough) items from 5 hook invocations and 7 events; the first afterPrintDone call while "
            "active and excluding must return flush ++ exit script ++ re-sync whose execution re-synchronises the reference printer; every "
            "other call returns None and changes nothing.",
            "OctoPrint injections stubbed; absolute positioning; one region."),
    "C16": ("DESIGN.md 9/C16", TECH + "trig contracts (atan2/cos/sin as constrained reals), QF_NRA obligations staged through lemmas discharged from minimal hypothesis sets",
            "Bounded symbolic model checking of the real planArc/computeArcCenterOffsets with symbolic start, centre offsets/radius, end "
            "point and direction: z3 shows the sweep is the angle between the start and end radii normalised to the commanded direction, "
            "sample k sits at start-angle + k*sweep/n on the circle, n = ceil(|sweep|*radius), consecutive samples at most one unit apart, "
            "the last pair is the commanded end point; radius form: centre at distance |R| from both end points.",
            "Floats as reals; trig by contract incl. chord<=arc instances; segments 1..6 quick / 12 thorough; last-sample-to-end spacing and "
            "the region consequence clause not discharged (stated); radius form with oblique chord is a known finding."),
    "C18": ("DESIGN.md 9/C18", TECH + "symbolic strings: every free character a solver variable with an interval-set domain; the line regex replaced by a validated backtracking model of `re`",
            "Bounded symbolic model checking of the real GcodeParser on symbolic text: free strings of N characters over the G-code alphabet "
            "and multi-line templates; z3/domain reasoning shows the concatenated fullText equals the input character by character, "
            "re-parsing commandString is stable (also on a re-used parser instance), and a line rendered with line number and checksum "
            "validates (checksum as 8-bit vectors).",
            "Regex model validated against the real `re` on ~70k cases per run; alphabet TAB/LF/CR/printable ASCII + U+00E9; N=4/3 free "
            "characters quick, 6/5 thorough, templates of 2 lines; rendered lines with leading blanks are a known finding."),
    "C19": ("DESIGN.md 9/C19", TECH + "symbolic parameter text against an independent reference reader; handlers run on the symbolic text",
            "Bounded symbolic model checking: for every parameter text of N symbolic characters that the reference reader accepts as a "
            "legal word sequence, the parser's (name, value) pairs equal the reference pairs (values as exact rationals of the digit "
            "characters), G0/G1 act on the last value per letter, G28 homes exactly the named axes.",
            "Regex model validated per run; alphabet letters/digits/+-./blank/#; N=6 (pairs), 4 (G1), 3 (G28) quick; 7/5/3 thorough."),
    "C20": ("DESIGN.md 9/C20", TECH + "relational: StreamProcessor.process_line vs. the live hooks of an independently built twin plugin",
            "Bounded symbolic model checking, relational: from three live states (printing / inside an episode / exclusion disabled) a file "
            "of 2 lines drawn from 12 (quick) / 16 (thorough) line templates x 4 decorations x 2 EOL styles is filtered by the real "
            "StreamProcessor; per line the output must equal what the twin's live hooks return (byte-identical untouched lines, same "
            "commands as RS274 readings each terminated by the file's EOL, None for suppressed); afterwards the live state is unchanged.",
            "process_line driven directly with text; comm-layer tokenisation modelled (strip comment/line number/checksum/blanks); twin "
            "built by replaying the prefix, not by copying."),
})

NOT_YET = {}


def main():
    props = [json.loads(l) for l in open(os.path.join(VERIF, "properties.jsonl"))]
    checks = []
    na = []
    for p in props:
        pid = p["id"]
        if pid in CLAIMED:
            ref, tech, text, note = CLAIMED[pid]
            checks.append({
                "property_id": pid,
                "quick_cmd": "./check %s --tier quick" % pid,
                "thorough_cmd": "./check %s --tier thorough" % pid,
                "evidence_file": "evidence/%s.json" % pid,
                "replay_cmd_template": "./check %s --replay {path}" % pid,
                "engine": "symx",
                "level_claimed": {"category": "model_checking", "text": text, "design_ref": ref},
                "level_note": note,
                "technique": tech,
            })
        else:
            na.append({"property_id": pid,
                       "reason": NOT_YET.get(pid, "check not built yet in this revision of /verif "
                                             "(planned, see DESIGN.md section 9); nothing is claimed for it")})
    man = {
        "version": 1,
        "setup_cmd": "./bootstrap.sh",
        "hooks": {
            "guard": "OCTOPRINT_EXCLUDEREGION_VERIF",
            "enable": "no source hooks: the checks load /repo's working-tree sources and instrument them in "
                      "memory (AST rewrite of import math/time/uuid, .join/.encode/bytearray; shimmed float/int/str/len)",
            "baseline_off_cmd": "cd /repo && /venv/bin/python -m pytest -ra -q -p no:cacheprovider --timeout=900 "
                                "--continue-on-collection-errors",
            "source_commits": [],
            "add_only": True,
        },
        "engines": [{
            "name": "symx", "path": "symx/",
            "serves_properties": sorted(CLAIMED),
            "kind_free_text": "own symbolic executor for the repo's Python source: operator-overloading proxies over "
                              "z3 Real/Int/Bool terms and symbolic strings, DFS path exploration by re-execution, z3 "
                              "decides branch feasibility and every obligation; counterexamples are replayed on the "
                              "pristine code before being reported",
        }],
        "checks": checks,
        "notes": "Exit codes: 0 held within bounds; 1 VIOLATION (replayed on pristine code); 2 INCONCLUSIVE "
                 "(unknown/unsupported/budget), never reported as success. See DESIGN.md.",
        "not_applicable": na,
    }
    with open(os.path.join(VERIF, "MANIFEST.json"), "w") as fh:
        json.dump(man, fh, indent=1)
        fh.write("\n")
    print("claimed:", sorted(CLAIMED), "not claimed:", [n["property_id"] for n in na])


if __name__ == "__main__":
    main()
