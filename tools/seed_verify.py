#!/usr/bin/env python3
"""Verify sub-agent mutants in a scratch worktree of /repo HEAD and store the confirmed ones under /verif/seeded/.

For every /tmp/wt/out/<ID>/patch<k>[.ported].diff:  apply in a scratch worktree, run the pinned suite (416 must pass),
run the demonstration with and without the change; keep it only if suite passes, demo fails with and passes without.
"""
import json, os, shutil, subprocess, sys

SRC = "/tmp/wt/out"
WT = "/tmp/seedwt"
SEEDED = "/verif/seeded"


def sh(cmd, cwd=None):
    return subprocess.run(cmd, shell=True, cwd=cwd, capture_output=True, text=True)


def fresh():
    sh("git -C /repo worktree remove --force %s" % WT)
    shutil.rmtree(WT, ignore_errors=True)
    r = sh("git -C /repo worktree add --detach %s HEAD" % WT)
    assert r.returncode == 0, r.stderr


def main():
    global SRC
    args = sys.argv[1:]
    offset = 0
    if "--src" in args:
        i = args.index("--src"); SRC = args[i + 1]; del args[i:i + 2]
    if "--offset" in args:
        i = args.index("--offset"); offset = int(args[i + 1]); del args[i:i + 2]
    ids = args or sorted(os.listdir(SRC))
    fresh()
    head = sh("git -C /repo log --format=%h -1").stdout.strip()
    report = []
    for pid in ids:
        d = os.path.join(SRC, pid)
        if not os.path.isdir(d):
            continue
        for k in (1, 2):
            ported = os.path.join(d, "patch%d.ported.diff" % k)
            patch = ported if os.path.exists(ported) else os.path.join(d, "patch%d.diff" % k)
            demo = os.path.join(d, "demo%d.py" % k)
            notes = os.path.join(d, "notes%d.md" % k)
            if not (os.path.exists(patch) and os.path.exists(demo)):
                continue
            sh("git checkout -- . && git clean -fdq", cwd=WT)
            clean_demo = sh("/venv/bin/python %s" % demo, cwd=WT).returncode
            ap = sh("git apply %s" % patch, cwd=WT)
            how = "git apply"
            if ap.returncode != 0:
                ap = sh("patch -p1 -F3 -s --no-backup-if-mismatch < %s" % patch, cwd=WT)
                how = "patch -F3"
            if ap.returncode != 0:
                report.append((pid, k, "DOES-NOT-APPLY", ""))
                sh("git checkout -- . && git clean -fdq", cwd=WT)
                continue
            base = sh("python3 /verif/tools/baseline_check.py %s" % WT)
            mut_demo = sh("/venv/bin/python %s" % demo, cwd=WT).returncode
            ok = base.returncode == 0 and clean_demo == 0 and mut_demo != 0
            status = "OK" if ok else "REJECT(baseline=%d clean_demo=%d mutant_demo=%d)" % (base.returncode, clean_demo, mut_demo)
            if ok:
                out = os.path.join(SEEDED, "%s-%d" % (pid, k + offset))
                os.makedirs(out, exist_ok=True)
                sh("git diff --binary > %s" % os.path.join(out, "patch.diff"), cwd=WT)   # bytes: sources are CRLF
                shutil.copy(demo, os.path.join(out, "demo.py"))
                if os.path.exists(notes):
                    shutil.copy(notes, os.path.join(out, "notes.md"))
                meta_p = os.path.join(out, "meta.json")
                meta = json.load(open(meta_p)) if os.path.exists(meta_p) else {}
                first = ""
                if os.path.exists(notes):
                    first = " ".join(open(notes).read().split())[:700]
                meta.update({
                    "property": pid, "mutant": k + offset, "round": offset // 2 + 1, "source": "independent sub-agent given only the property text and a scratch worktree",
                    "applies_to_repo_head": head, "applied_with": how, "ported_to_fixed_tree": os.path.exists(ported),
                    "what_it_needs_to_manifest": first,
                    "confirmed": {"pinned_suite_with_change": base.stdout.strip().splitlines()[0],
                                  "demo_exit_without_change": clean_demo, "demo_exit_with_change": mut_demo,
                                  "commands": ["git -C <scratch worktree> apply patch.diff", "python3 tools/baseline_check.py <worktree>",
                                               "cd <worktree> && /venv/bin/python demo.py"]},
                })
                json.dump(meta, open(meta_p, "w"), indent=1)
            report.append((pid, k, status, how))
            sh("git checkout -- . && git clean -fdq", cwd=WT)
    sh("git -C /repo worktree remove --force %s" % WT)
    for r in report:
        print(*r)


main()
