#!/usr/bin/env python3
"""Write seeded/INDEX.md: one line per stored seeded change with what detects it (from meta.json)."""
import json, os
S = "/verif/seeded"
rows = []
for nm in sorted(os.listdir(S)):
    mp = os.path.join(S, nm, "meta.json")
    if not os.path.exists(mp):
        continue
    m = json.load(open(mp))
    cr = m.get("check_result") or {}
    det = "own check" if cr.get("detected") else None
    how = (cr.get("violation") or "")
    if not det:
        for o, r in (m.get("other_checks") or {}).items():
            if r.get("detected"):
                det = "check %s" % o
                how = r.get("violation") or ""
                break
    if not det:
        det = "NOT DETECTED (exit %s)" % cr.get("exit")
    need = (m.get("what_it_needs_to_manifest") or "")[:160].replace("|", "/")
    lab = ""
    if "label=" in how:
        lab = how.split("label=")[1].split(" ")[0]
    rows.append("| %s | %s | %s | %s | %s |" % (nm, m.get("round", 1), det, lab, need))
with open(os.path.join(S, "INDEX.md"), "w") as fh:
    fh.write("# Seeded changes (independent sub-agents; confirmed: suite 416/416 with the change, demo fails with / passes without)\n\n")
    fh.write("| id | round | detected by (quick tier) | violated obligation | what it needs (from the author's notes) |\n|---|---|---|---|---|\n")
    fh.write("\n".join(rows) + "\n")
print(len(rows), "rows;", sum("NOT DETECTED" in r for r in rows), "not detected")
