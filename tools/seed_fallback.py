#!/usr/bin/env python3
"""For seeded changes the property's own check missed: run related checks and record which one detects it."""
import json, os, shutil, subprocess, sys, time
SEEDED = "/verif/seeded"; WT = "/tmp/seedrun"
REL = {"C01": ["C06", "C16", "C03", "C14", "C02"], "C02": ["C10", "C01", "C19"], "C03": ["C01", "C14"], "C04": ["C05", "C07", "C10"],
       "C05": ["C04", "C07"], "C06": ["C20", "C15", "C10"], "C07": ["C05"], "C08": ["C10", "C02", "C09"], "C09": ["C20", "C07"],
       "C10": ["C11"], "C11": ["C10", "C13"], "C12": ["C13", "C17"], "C13": ["C12", "C11"], "C14": ["C05", "C04", "C01", "C03"],
       "C15": ["C06"], "C16": ["C19", "C09", "C01"], "C17": ["C12"], "C18": ["C19", "C20"], "C19": ["C18", "C16"],
       "C20": ["C18", "C09", "C10"]}
def sh(cmd, cwd=None, env=None):
    return subprocess.run(cmd, shell=True, cwd=cwd, capture_output=True, text=True, env=env)
names = sys.argv[1:]
sh("git -C /repo worktree remove --force %s" % WT); shutil.rmtree(WT, ignore_errors=True)
assert sh("git -C /repo worktree add --detach %s HEAD" % WT).returncode == 0
env = dict(os.environ, VERIF_REPO=WT, VERIF_EVIDENCE_DIR="/tmp/seedrun-evidence", VERIF_REPLAY_DIR="/tmp/seedrun-replays")
for nm in names:
    d = os.path.join(SEEDED, nm); pid = nm.split("-")[0]
    sh("git checkout -- . && git clean -fdq", cwd=WT)
    assert sh("git apply %s" % os.path.join(d, "patch.diff"), cwd=WT).returncode == 0
    meta_p = os.path.join(d, "meta.json"); meta = json.load(open(meta_p))
    others = meta.setdefault("other_checks", {})
    for other in REL.get(pid, []):
        t0 = time.time(); r = sh("./check %s" % other, cwd="/verif", env=env)
        det = [l.strip() for l in r.stdout.splitlines() if l.startswith("  scenario=") or l.startswith("  concrete corpus")]
        hit = r.returncode == 1 and any(l.startswith("VIOLATION") for l in r.stdout.splitlines())
        others[other] = {"exit": r.returncode, "detected": hit, "violation": det[0][:300] if det else None, "wall_s": round(time.time() - t0, 1)}
        print(nm, other, "DETECTED" if hit else "missed(rc=%d)" % r.returncode, (det[0][:120] if det else "")); sys.stdout.flush()
        if hit:
            break
    json.dump(meta, open(meta_p, "w"), indent=1)
sh("git -C /repo worktree remove --force %s" % WT)
