#!/usr/bin/env python3
"""Run the property's check against every stored seeded change, in a scratch worktree (VERIF_REPO override), and
record in seeded/<id>-<k>/meta.json whether it was detected.  usage: tools/seed_run.py [ID-k ...]"""
import json, os, shutil, subprocess, sys, time

SEEDED = "/verif/seeded"
WT = "/tmp/seedrun"


def sh(cmd, cwd=None, env=None):
    return subprocess.run(cmd, shell=True, cwd=cwd, capture_output=True, text=True, env=env)


def main():
    names = sys.argv[1:] or sorted(os.listdir(SEEDED))
    sh("git -C /repo worktree remove --force %s" % WT)
    shutil.rmtree(WT, ignore_errors=True)
    assert sh("git -C /repo worktree add --detach %s HEAD" % WT).returncode == 0
    env = dict(os.environ, VERIF_REPO=WT, VERIF_EVIDENCE_DIR="/tmp/seedrun-evidence", VERIF_REPLAY_DIR="/tmp/seedrun-replays")
    for nm in names:
        d = os.path.join(SEEDED, nm)
        if not os.path.exists(os.path.join(d, "patch.diff")):
            continue
        pid = nm.split("-")[0]
        sh("git checkout -- . && git clean -fdq", cwd=WT)
        if sh("git apply %s" % os.path.join(d, "patch.diff"), cwd=WT).returncode != 0:
            print(nm, "PATCH-DOES-NOT-APPLY")
            continue
        t0 = time.time()
        r = sh("./check %s" % pid, cwd="/verif", env=env)
        dt = time.time() - t0
        viol = [l for l in r.stdout.splitlines() if l.startswith("VIOLATION")]
        det = [l.strip() for l in r.stdout.splitlines() if l.startswith("  scenario=")]
        meta_p = os.path.join(d, "meta.json")
        meta = json.load(open(meta_p))
        meta["check_result"] = {"check": "./check %s (quick tier)" % pid, "exit": r.returncode, "wall_s": round(dt, 1),
                                "detected": r.returncode == 1 and bool(viol),
                                "violation": (det[0][:400] if det else None)}
        json.dump(meta, open(meta_p, "w"), indent=1)
        print(nm, "rc=%d" % r.returncode, "%.0fs" % dt, "DETECTED" if viol else "MISSED", (det[0][:150] if det else ""))
        sys.stdout.flush()
    sh("git -C /repo worktree remove --force %s" % WT)
    shutil.rmtree("/tmp/seedrun-evidence", ignore_errors=True)
    shutil.rmtree("/tmp/seedrun-replays", ignore_errors=True)


main()
