#!/usr/bin/env python3
"""Translator validation (DESIGN 4.7/1): run the repository's own pinned unit tests against the INSTRUMENTED modules
(AST rewrites + shims active, concrete inputs) and compare the passing set with BASELINE.json.
usage: .venv/bin/python tools/validate_translator.py   -> exit 0 iff every baseline-passing test also passes instrumented."""
import json, os, sys, tempfile
import xml.etree.ElementTree as ET

V = os.path.dirname(os.path.dirname(os.path.abspath(__file__)))
sys.path.insert(0, V)
REPO = os.environ.get("VERIF_REPO", "/repo")


def main():
    from symx import loader
    loader.install(symbolic_pi=False)
    import pytest
    os.chdir(REPO)
    sys.path.insert(0, REPO)
    with tempfile.TemporaryDirectory() as td:
        junit = os.path.join(td, "j.xml")
        pytest.main(["-q", "-p", "no:cacheprovider", "--continue-on-collection-errors", "--junitxml=" + junit, "test"])
        passed = set()
        for tc in ET.parse(junit).getroot().iter("testcase"):
            if not any(ch.tag in ("failure", "error", "skipped") for ch in tc):
                passed.add("%s::%s" % (tc.get("classname"), tc.get("name")))
    want = set(json.load(open("/root/.vp/BASELINE.json"))["stable_pass"])
    missing = sorted(want - passed)
    from symx.loader import SOURCE_SHA
    print("instrumented modules: %d ; baseline tests passing on them: %d/%d" % (len(SOURCE_SHA), len(want) - len(missing), len(want)))
    for m in missing[:20]:
        print("  MISSING", m)
    sys.exit(1 if missing else 0)


main()
