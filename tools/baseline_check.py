#!/usr/bin/env python3
"""Run the pinned test suite in a tree and compare the passing set with BASELINE.json.

usage: baseline_check.py [tree=/repo]   -> exit 0 iff every stable_pass test still passes.
"""
import json, os, subprocess, sys, tempfile
import xml.etree.ElementTree as ET

def main():
    tree = sys.argv[1] if len(sys.argv) > 1 else "/repo"
    base = json.load(open("/root/.vp/BASELINE.json"))
    want = set(base["stable_pass"])
    with tempfile.TemporaryDirectory() as td:
        junit = os.path.join(td, "j.xml")
        subprocess.run(
            ["/venv/bin/python", "-m", "pytest", "-q", "-p", "no:cacheprovider", "--timeout=900",
             "--continue-on-collection-errors", "--junitxml=" + junit],
            cwd=tree, stdout=subprocess.DEVNULL, stderr=subprocess.DEVNULL)
        passed = set()
        for tc in ET.parse(junit).getroot().iter("testcase"):
            if not any(ch.tag in ("failure", "error", "skipped") for ch in tc):
                passed.add("%s::%s" % (tc.get("classname"), tc.get("name")))
    missing = sorted(want - passed)
    print("passed=%d baseline=%d missing=%d" % (len(passed), len(want), len(missing)))
    for m in missing[:20]:
        print("  MISSING", m)
    sys.exit(1 if missing else 0)

main()
