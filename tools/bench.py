#!/usr/bin/env python3
"""tools/bench.py <pid> <scenario> [k=v ...] [-w N] : run one scenario once, print stats (development aid)."""
import sys, time, json, importlib, os, warnings
warnings.filterwarnings("ignore")
sys.path.insert(0, os.path.dirname(os.path.dirname(os.path.abspath(__file__))))
from harness import base
from symx import core, shims
args = sys.argv[1:]
W = None
if "-w" in args:
    i = args.index("-w"); W = int(args[i + 1]); del args[i:i + 2]
excl = []
if "-x" in args:
    i = args.index("-x"); excl = args[i + 1].split(","); del args[i:i + 2]
budget = None
if "-b" in args:
    i = args.index("-b"); budget = float(args[i + 1]); del args[i:i + 2]
pid, sname = args[0], args[1]
params = {}
for kv in args[2:]:
    k, v = kv.split("=")
    params[k] = int(v) if v.lstrip("-").isdigit() else v
hm = importlib.import_module("harness." + pid.lower())
base.env(True)
fn = hm.SCENARIOS[sname]
def scen(ctx):
    fn(base.SymWorld(ctx, excl), **params)
t0 = time.time()
st, vs, comp = core.run_scenario(scen, workers=W, setup=lambda c: c.global_axioms.extend(shims.GLOBAL_AXIOMS), budget_s=budget)
d = st.as_dict()
print({k: d[k] for k in ("paths", "paths_aborted", "feas_queries", "obligations", "obl_sat", "obl_unknown", "solver_s", "obl_s", "nra_calls", "slowest_obligation", "unsupported", "cover")})
print("wall %.1fs complete=%s violations=%d" % (time.time() - t0, comp, len(vs)))
seen = set()
for v in vs:
    if v["label"] in seen: continue
    seen.add(v["label"])
    print(" ", v["label"], "|", v["detail"][:300], "|", {k: (x if not isinstance(x, dict) else int(x["num"]) / int(x["den"])) for k, x in v["inputs"].items()}, v["extra"].get("program"))
