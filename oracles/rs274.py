"""Reference RS274/Marlin-style reader for one command string (independent of GcodeParser).

Number tokens are returned as *text*: a plain decimal, a numeric key literal (symbolic input number,
DESIGN 5.2) or a format marker "\\x00<id>\\x00" (symbolic output number).  The caller resolves them.
"""
from __future__ import annotations

import re

MARK = "\x00"
_HEAD = re.compile(r"^[ \t]*(?:[Nn]\d+[ \t]*)?([GgMmTt])[ \t]*(\d+)(?:\.(\d+))?")
_NUM = re.compile(r"[-+]?(?:\d+\.?\d*|\.\d+)")
_MARK = re.compile(MARK + r"\d+" + MARK)


class Command(object):
    __slots__ = ("code", "sub", "words", "malformed", "text")

    def __init__(self, text):
        self.text = text
        self.code = None
        self.sub = None
        self.words = []          # [(LETTER, number-text or None)]
        self.malformed = None

    def get(self, letter):
        """Last value given for `letter` (Marlin keeps the last occurrence), or None."""
        val = None
        for l, v in self.words:
            if l == letter and v is not None:
                val = v
        return val

    def has(self, letter):
        return any(l == letter for l, _ in self.words)

    def letters(self):
        return [l for l, _ in self.words]


def read(text):
    c = Command(text)
    m = _HEAD.match(text)
    if not m:
        c.malformed = "no G/M/T code"
        return c
    c.code = m.group(1).upper() + str(int(m.group(2)))
    c.sub = None if m.group(3) is None else int(m.group(3))
    i = m.end()
    n = len(text)
    while i < n:
        ch = text[i]
        if ch in " \t":
            i += 1
            continue
        if ch in ";\r\n":
            break
        if ch == "*":
            break
        if not ch.isalpha():
            c.malformed = c.malformed or "unexpected character %r at %d" % (ch, i)
            i += 1
            continue
        letter = ch.upper()
        i += 1
        while i < n and text[i] in " \t":
            i += 1
        val = None
        mm = _MARK.match(text, i)
        if mm:
            val = mm.group(0)
            i = mm.end()
        else:
            mn = _NUM.match(text, i)
            if mn:
                val = mn.group(0)
                i = mn.end()
                # exponent form directly attached to a number: not plain decimal
                if i < n and text[i] in "eE" and i + 1 < n and (text[i + 1].isdigit() or (
                        text[i + 1] in "+-" and i + 2 < n and text[i + 2].isdigit())):
                    c.malformed = c.malformed or "exponent notation in %r" % text
        c.words.append((letter, val))
    return c
