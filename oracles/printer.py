"""Reference printer: what a Marlin-style firmware does with a command (oracle, both modes).

State is kept in *native* millimetres.  Modes and units are concrete (they follow from command codes).
No branching on symbolic values happens here (symx.alg only), so the oracle never forks the explorer.
"""
from __future__ import annotations

from fractions import Fraction

from symx import alg
from oracles import rs274

MOVE_CODES = ("G0", "G1", "G2", "G3")
INCH = Fraction(254, 10)


class Motion(object):
    __slots__ = ("text", "code", "dx", "dy", "dz", "dfil", "z_before", "z_after", "has_xyz", "has_e",
                 "x_after", "y_after", "kind", "valid")

    def __init__(self, text, code):
        self.text, self.code = text, code
        self.dx = self.dy = self.dz = self.dfil = 0
        self.z_before = self.z_after = None
        self.x_after = self.y_after = None
        self.has_xyz = self.has_e = False
        self.kind = "other"
        self.valid = True


class Printer(object):
    def __init__(self, w, g90e=False, name="P"):
        self.w = w
        self.name = name
        self.g90e = g90e
        self.x = self.y = self.z = 0
        self.homed = False
        self.off = {"X": 0, "Y": 0, "Z": 0}      # G92 shift: native = logical*u + off
        self.abs_xyz = True
        self.abs_e = True
        self.u = 1
        self.e = 0            # extruder register, native mm
        self.fil = 0          # physical filament position (mm pushed so far)
        self.hw = 0           # high-water mark of fil; retraction depth = hw - fil
        self.fw_retracted = False
        self.feed = None
        self.log = []
        self.decide = None    # optional: turn a symbolic validity condition into a concrete bool (fork)
        self.opaque = []      # non-modelled commands in order (scripts, deferred codes, unknown codes)

    # ---- helpers ---------------------------------------------------------------------------------
    def num(self, text):
        return self.w.resolve_number(text)

    def depth(self):
        return self.hw - self.fil

    def logical(self, axis):
        cur = {"X": self.x, "Y": self.y, "Z": self.z}[axis]
        return (cur - self.off[axis]) / self.u

    def logical_e(self):
        return self.e / self.u

    def snapshot(self):
        return dict(x=self.x, y=self.y, z=self.z, e=self.e, fil=self.fil, hw=self.hw,
                    abs_xyz=self.abs_xyz, abs_e=self.abs_e, u=self.u, fw=self.fw_retracted,
                    off=dict(self.off))

    # ---- execution -------------------------------------------------------------------------------
    def execute(self, text):
        """Execute one command string; returns the Motion record appended to the log."""
        c = rs274.read(text)
        m = Motion(text, c.code)
        m.z_before = self.z
        code = c.code
        if code is None:
            m.kind = "opaque"
            self.opaque.append(text)
        elif code in MOVE_CODES:
            self._move(c, m)
        elif code == "G10" and not (c.has("P") or c.has("L")):
            m.kind = "fw-retract"
            if not self.fw_retracted:
                self.fw_retracted = True
                m.kind = "fw-retract-effective"
        elif code == "G11":
            m.kind = "fw-recover"
            if self.fw_retracted:
                self.fw_retracted = False
                m.kind = "fw-recover-effective"
        elif code == "G20":
            self.u = INCH if self.w.symbolic else 25.4
            m.kind = "units"
        elif code == "G21":
            self.u = 1
            m.kind = "units"
        elif code == "G90":
            self.abs_xyz = True
            if self.g90e:
                self.abs_e = True
            m.kind = "mode"
        elif code == "G91":
            self.abs_xyz = False
            if self.g90e:
                self.abs_e = False
            m.kind = "mode"
        elif code == "G92":
            m.kind = "set-position"
            any_word = False
            for ax in ("X", "Y", "Z"):
                v = c.get(ax)
                if v is not None:
                    any_word = True
                    cur = {"X": self.x, "Y": self.y, "Z": self.z}[ax]
                    self.off[ax] = cur - self.num(v) * self.u
            v = c.get("E")
            if v is not None:
                self.e = self.num(v) * self.u
        elif code == "G28":
            m.kind = "home"
            axes = [a for a in ("X", "Y", "Z") if c.has(a)] or ["X", "Y", "Z"]
            ox, oy, oz = self.x, self.y, self.z
            for a in axes:
                setattr(self, a.lower(), 0)
                self.off[a] = 0
            self.homed = True
            m.dx, m.dy, m.dz = self.x - ox, self.y - oy, self.z - oz
        else:
            m.kind = "opaque"
            self.opaque.append(text)
        m.z_after = self.z
        m.x_after, m.y_after = self.x, self.y
        self.log.append(m)
        return m

    def _move(self, c, m):
        m.kind = "move"
        ox, oy, oz = self.x, self.y, self.z
        valid = True
        if c.code in ("G2", "G3") and not c.has("R"):
            # Marlin: an arc without a non-zero centre offset is rejected ("bad parameters"), no motion
            iv, jv = c.get("I"), c.get("J")
            conds = [alg.ne(self.num(t), 0) for t in (iv, jv) if t is not None]
            valid = alg.or_(*conds) if conds else False
            if self.decide is not None:
                valid = self.decide(valid)
        m.valid = valid
        for ax in ("X", "Y", "Z"):
            v = c.get(ax)
            if v is None:
                continue
            m.has_xyz = True
            val = self.num(v) * self.u
            cur = getattr(self, ax.lower())
            new = (val + self.off[ax]) if self.abs_xyz else (cur + val)
            setattr(self, ax.lower(), alg.ite(valid, new, cur))
        m.dx, m.dy, m.dz = self.x - ox, self.y - oy, self.z - oz
        v = c.get("E")
        if v is not None:
            m.has_e = True
            val = self.num(v) * self.u
            new_e = alg.ite(valid, val if self.abs_e else self.e + val, self.e)
            m.dfil = new_e - self.e
            self.e = new_e
            self.fil = self.fil + m.dfil
            if self.decide is not None:
                # resolve the maximum by a (mostly forced) branch: keeps the terms If-free
                self.hw = self.fil if self.decide(self.hw <= self.fil) else self.hw
            else:
                self.hw = alg.max_(self.hw, self.fil)
        v = c.get("F")
        if v is not None and valid is True:
            self.feed = self.num(v) * self.u
