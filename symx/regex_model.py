"""symx.regex_model -- backtracking matcher over the `re` parse tree, on symbolic strings.

Implements CPython's priority (leftmost, first-alternative, greedy/lazy) semantics for the constructs used by
the repository's patterns: LITERAL, NOT_LITERAL, IN (LITERAL, RANGE, NEGATE, CATEGORY_DIGIT/SPACE/WORD subsets),
BRANCH, SUBPATTERN (capturing and non-capturing), MAX_REPEAT, MIN_REPEAT, AT_BEGINNING_STRING, AT_END_STRING.
Any other opcode raises Unsupported (inconclusive, never a silent approximation).  On real `str` input the
model delegates to the real compiled pattern.  A character-class test on a symbolic character is a branch
decided by the character's domain (symx.strings.char_test).
"""
from __future__ import annotations

import re
try:
    import re._parser as sre_parse
    import re._constants as sre_c
except ImportError:  # pragma: no cover
    import sre_parse
    import sre_constants as sre_c

from . import core
from .strings import SymStr, char_test, norm, minus, MAXCP

ALL = [(0, MAXCP)]
# \d on str patterns matches Unicode decimal digits; the symbolic alphabets used here contain ASCII digits plus
# (optionally) ARABIC-INDIC digits as the non-ASCII representative
DIGIT_RANGES = [(48, 57), (0x660, 0x669)]


def _class_ranges(items):
    neg = False
    rs = []
    for op, av in items:
        if op is sre_c.NEGATE:
            neg = True
        elif op is sre_c.LITERAL:
            rs.append((av, av))
        elif op is sre_c.RANGE:
            rs.append((av[0], av[1]))
        elif op is sre_c.CATEGORY:
            if av is sre_c.CATEGORY_DIGIT:
                rs.extend(DIGIT_RANGES)
            else:
                raise core.Unsupported("regex category %s" % (av,))
        else:
            raise core.Unsupported("regex class item %s" % (op,))
    rs = norm(rs)
    return minus(ALL, rs) if neg else rs


def _compile(seq):
    out = []
    for op, av in seq:
        if op is sre_c.LITERAL:
            out.append(("SET", [(av, av)]))
        elif op is sre_c.NOT_LITERAL:
            out.append(("SET", minus(ALL, [(av, av)])))
        elif op is sre_c.IN:
            out.append(("SET", _class_ranges(av)))
        elif op is sre_c.ANY:
            out.append(("SET", minus(ALL, [(10, 10)])))
        elif op is sre_c.SUBPATTERN:
            group, add_flags, del_flags, p = av
            if add_flags or del_flags:
                raise core.Unsupported("regex inline flags")
            out.append(("GROUP", group, _compile(p)))
        elif op is sre_c.BRANCH:
            out.append(("BRANCH", [_compile(alt) for alt in av[1]]))
        elif op is sre_c.MAX_REPEAT:
            lo, hi, p = av
            out.append(("REP", lo, hi, _compile(p), True))
        elif op is sre_c.MIN_REPEAT:
            lo, hi, p = av
            out.append(("REP", lo, hi, _compile(p), False))
        elif op is sre_c.AT:
            if av is sre_c.AT_BEGINNING_STRING:
                out.append(("AT", "A"))
            elif av is sre_c.AT_END_STRING:
                out.append(("AT", "Z"))
            elif av is sre_c.AT_BEGINNING:
                out.append(("AT", "A"))     # '^' without MULTILINE
            else:
                raise core.Unsupported("regex anchor %s" % (av,))
        else:
            raise core.Unsupported("regex opcode %s" % (op,))
    return out


class ModelMatch(object):
    def __init__(self, s, start, end, caps, ngroups):
        self.s, self._start, self._end, self.caps, self.ngroups = s, start, end, caps, ngroups

    def start(self, g=0):
        if g == 0:
            return self._start
        c = self.caps.get(g)
        return -1 if c is None else c[0]

    def end(self, g=0):
        if g == 0:
            return self._end
        c = self.caps.get(g)
        return -1 if c is None else c[1]

    def span(self, g=0):
        return (self.start(g), self.end(g))

    def group(self, g=0):
        if g == 0:
            return self.s[self._start:self._end]
        c = self.caps.get(g)
        return None if c is None else self.s[c[0]:c[1]]

    def groups(self):
        return tuple(self.group(i) for i in range(1, self.ngroups + 1))

    def __bool__(self):
        return True


class RegexModel(object):
    def __init__(self, pattern, flags=0):
        if flags:
            raise core.Unsupported("regex flags")
        self.pattern = pattern
        self.real = re.compile(pattern)
        tree = sre_parse.parse(pattern)
        self.ngroups = tree.state.groups - 1
        self.prog = _compile(list(tree))
        self.stats_tests = 0
        self.force_model = False

    # -- public API (subset of re.Pattern) -----------------------------------------------------------
    def match(self, s, pos=0, endpos=None):
        if isinstance(s, str):
            return self.real.match(s, pos) if endpos is None else self.real.match(s, pos, endpos)
        if not isinstance(s, SymStr):
            raise TypeError("expected string, got %r" % (type(s),))
        conc = s.concrete()
        if conc is not None and not self.force_model:
            m = self.real.match(conc, pos)
            if m is None:
                return None
            caps = {g: m.span(g) for g in range(1, self.ngroups + 1) if m.span(g) != (-1, -1)}
            return ModelMatch(s, m.start(), m.end(), caps, self.ngroups)
        n = len(s)
        res = self._m(self.prog, 0, s.e, n, pos, {}, lambda p, c: (p, c))
        if res is None:
            return None
        end, caps = res
        return ModelMatch(s, pos, end, caps, self.ngroups)

    def sub(self, repl, s, count=0):
        if isinstance(s, str):
            return self.real.sub(repl, s, count)
        raise core.Unsupported("regex sub on a symbolic string")

    def search(self, s, pos=0):
        if isinstance(s, str):
            return self.real.search(s, pos)
        raise core.Unsupported("regex search on a symbolic string")

    # -- the matcher -------------------------------------------------------------------------------------
    def _m(self, seq, idx, e, n, pos, caps, cont):
        if idx == len(seq):
            return cont(pos, caps)
        node = seq[idx]
        kind = node[0]
        if kind == "SET":
            if pos < n and char_test(e[pos], node[1]):
                return self._m(seq, idx + 1, e, n, pos + 1, caps, cont)
            return None
        if kind == "AT":
            ok = (pos == 0) if node[1] == "A" else (pos == n)
            return self._m(seq, idx + 1, e, n, pos, caps, cont) if ok else None
        if kind == "GROUP":
            group, body = node[1], node[2]
            start = pos

            def after(p, c, _g=group, _s=start):
                if _g is not None:
                    c = dict(c)
                    c[_g] = (_s, p)
                return self._m(seq, idx + 1, e, n, p, c, cont)
            return self._m(body, 0, e, n, pos, caps, after)
        if kind == "BRANCH":
            for alt in node[1]:
                r = self._m(alt, 0, e, n, pos, caps, lambda p, c: self._m(seq, idx + 1, e, n, p, c, cont))
                if r is not None:
                    return r
            return None
        if kind == "REP":
            lo, hi, body, greedy = node[1], node[2], node[3], node[4]
            rest = lambda p, c: self._m(seq, idx + 1, e, n, p, c, cont)

            def rep(count, p, c):
                def more():
                    if hi is not sre_c.MAXREPEAT and count >= hi:
                        return None
                    return self._m(body, 0, e, n, p, c,
                                   lambda p2, c2: None if (p2 == p and count >= lo) else rep(count + 1, p2, c2))
                if greedy:
                    r = more()
                    if r is not None:
                        return r
                    return rest(p, c) if count >= lo else None
                if count >= lo:
                    r = rest(p, c)
                    if r is not None:
                        return r
                return more()
            return rep(0, pos, caps)
        raise core.Unsupported("regex node %r" % (kind,))


def install(mod_names=("GcodeParser",)):
    """Replace the module-level compiled patterns of the loaded repo modules by models."""
    from . import loader
    REGEX_TYPE = type(re.compile(""))
    replaced = []
    for mn in mod_names:
        m = loader.mod(mn)
        for k, v in list(vars(m).items()):
            if isinstance(v, REGEX_TYPE):
                setattr(m, k, RegexModel(v.pattern, v.flags & ~re.UNICODE))
                replaced.append("%s.%s" % (mn, k))
    return replaced
