"""symx.values -- operator-overloading proxies standing for Python float/int/bool values.

SymReal  ~ Python float, modelled as a mathematical real (DESIGN 5.1)
SymInt   ~ Python int
SymBool  ~ Python bool; bool(SymBool) is a branch decided by the explorer
FmtTok   ~ the text CPython would produce for format(float, spec)/str(float): a real `str`
           marker "\\x00<id>\\x00" that survives every C-level string operation
"""
from __future__ import annotations

from fractions import Fraction

import z3

from . import core

MARK = "\x00"


_QCACHE = {}


def _q(v):
    """Exact rational z3 numeral for a concrete Python number (decimal meaning of a float)."""
    key = (type(v), v)
    r = _QCACHE.get(key)
    if r is None:
        r = _q0(v)
        if len(_QCACHE) < 4096:
            _QCACHE[key] = r
    return r


def _q0(v):
    if isinstance(v, bool):
        return z3.RealVal(1 if v else 0)
    if isinstance(v, int):
        return z3.RealVal(v)
    if isinstance(v, Fraction):
        return z3.RealVal(str(v.numerator) + "/" + str(v.denominator))
    if isinstance(v, float):
        if v != v or v in (float("inf"), float("-inf")):
            raise core.Unsupported("non-finite float constant %r" % v)
        f = Fraction(repr(v))
        return z3.RealVal(str(f.numerator) + "/" + str(f.denominator))
    raise TypeError("not a number: %r" % (v,))


def to_real(v):
    """z3 Real term for a proxy or a concrete number; None if `v` is not numeric."""
    if isinstance(v, SymReal):
        return v.t
    if isinstance(v, SymInt):
        return z3.ToReal(v.t)
    if isinstance(v, SymBool):
        return z3.If(v.t, z3.RealVal(1), z3.RealVal(0))
    if isinstance(v, (bool, int, float, Fraction)):
        return _q(v)
    return None


def _mk_bool(e):
    e = z3.simplify(e)
    if z3.is_true(e):
        return True
    if z3.is_false(e):
        return False
    return SymBool(e)


def _mk_real(e):
    return SymReal(e)


def _conc(o):
    return isinstance(o, (int, float, Fraction)) and not isinstance(o, bool)


class SymBool(object):
    __slots__ = ("t",)

    def __init__(self, t):
        self.t = t

    def __bool__(self):
        return core.cur().decide(self.t)

    def __invert__(self):
        return _mk_bool(z3.Not(self.t))

    def _other(self, o):
        if isinstance(o, SymBool):
            return o.t
        if isinstance(o, bool):
            return z3.BoolVal(o)
        return None

    def __xor__(self, o):
        ot = self._other(o)
        if ot is None:
            return NotImplemented
        return _mk_bool(z3.Xor(self.t, ot))

    __rxor__ = __xor__

    def __and__(self, o):
        ot = self._other(o)
        if ot is None:
            return NotImplemented
        return _mk_bool(z3.And(self.t, ot))

    __rand__ = __and__

    def __or__(self, o):
        ot = self._other(o)
        if ot is None:
            return NotImplemented
        return _mk_bool(z3.Or(self.t, ot))

    __ror__ = __or__

    def __eq__(self, o):
        ot = self._other(o)
        if ot is None:
            return False
        return _mk_bool(self.t == ot)

    def __ne__(self, o):
        ot = self._other(o)
        if ot is None:
            return True
        return _mk_bool(self.t != ot)

    __hash__ = None

    def __deepcopy__(self, memo):
        return self

    def __copy__(self):
        return self

    def __repr__(self):
        return "SymBool(%s)" % (self.t,)

    def __format__(self, spec):
        raise core.Unsupported("formatting a symbolic bool")


def zb(v):
    """z3 Bool for a SymBool / python bool."""
    if isinstance(v, SymBool):
        return v.t
    if isinstance(v, bool):
        return z3.BoolVal(v)
    if v is None:
        return z3.BoolVal(False)
    raise TypeError("not a boolean: %r" % (v,))


class _Num(object):
    """Shared arithmetic of SymReal and SymInt."""
    __slots__ = ("t",)

    def __init__(self, t):
        self.t = t

    # --- comparisons ---------------------------------------------------------------------
    def _cmp(self, o, fn):
        if isinstance(self, SymInt):
            if isinstance(o, SymInt):
                return _mk_bool(fn(self.t, o.t))
            if isinstance(o, int) and not isinstance(o, bool):
                return _mk_bool(fn(self.t, z3.IntVal(o)))
        ot = to_real(o)
        if ot is None:
            return NotImplemented
        return _mk_bool(fn(to_real(self), ot))

    def __lt__(self, o):
        return self._cmp(o, lambda a, b: a < b)

    def __le__(self, o):
        return self._cmp(o, lambda a, b: a <= b)

    def __gt__(self, o):
        return self._cmp(o, lambda a, b: a > b)

    def __ge__(self, o):
        return self._cmp(o, lambda a, b: a >= b)

    def __eq__(self, o):
        if type(o).__name__ == "SymByte":
            return o.__eq__(self)
        r = self._cmp(o, lambda a, b: a == b)
        return False if r is NotImplemented else r

    def __ne__(self, o):
        if type(o).__name__ == "SymByte":
            return o.__ne__(self)
        r = self._cmp(o, lambda a, b: a != b)
        return True if r is NotImplemented else r

    def __hash__(self):
        # constant: every symbolic number collides, so dict/set membership is decided by __eq__ (a branch)
        return 0

    def __bool__(self):
        zero = z3.IntVal(0) if isinstance(self, SymInt) else z3.RealVal(0)
        return core.cur().decide(self.t != zero)

    def __deepcopy__(self, memo):
        return self

    def __copy__(self):
        return self


class SymReal(_Num):
    __slots__ = ()

    # --- arithmetic ----------------------------------------------------------------------
    def __add__(self, o):
        if _conc(o) and o == 0:
            return self
        ot = to_real(o)
        if ot is None:
            return NotImplemented
        return _mk_real(self.t + ot)

    __radd__ = __add__

    def __sub__(self, o):
        if _conc(o) and o == 0:
            return self
        ot = to_real(o)
        if ot is None:
            return NotImplemented
        return _mk_real(self.t - ot)

    def __rsub__(self, o):
        ot = to_real(o)
        if ot is None:
            return NotImplemented
        return _mk_real(ot - self.t)

    def __mul__(self, o):
        if _conc(o):
            if o == 1:
                return self
            if o == 0:
                return 0
            return _mk_real(self.t * _q(o))
        ot = to_real(o)
        if ot is None:
            return NotImplemented
        st = self.t
        if core.active() and not z3.is_rational_value(ot) and not z3.is_rational_value(st):
            core.cur().nonlinear = True
        return _mk_real(st * ot)

    __rmul__ = __mul__

    def __truediv__(self, o):
        if _conc(o):
            if o == 1:
                return self
            if o == 0:
                raise ZeroDivisionError("float division by zero")
            return _mk_real(self.t / _q(o))
        ot = to_real(o)
        if ot is None:
            return NotImplemented
        return _div(self.t, ot)

    def __rtruediv__(self, o):
        ot = to_real(o)
        if ot is None:
            return NotImplemented
        return _div(ot, self.t)

    def __neg__(self):
        return _mk_real(-self.t)

    def __pos__(self):
        return self

    def __abs__(self):
        return _mk_real(z3.If(self.t >= 0, self.t, -self.t))

    def __pow__(self, o):
        if isinstance(o, int) and not isinstance(o, bool) and 0 <= o <= 4:
            r = z3.RealVal(1)
            for _ in range(o):
                r = r * self.t
            return _mk_real(r)
        raise core.Unsupported("SymReal ** %r" % (o,))

    def __float__(self):
        raise core.Unsupported("C-level float() of a symbolic real (would concretise)")

    def __int__(self):
        raise core.Unsupported("C-level int() of a symbolic real (would concretise)")

    def __index__(self):
        raise core.Unsupported("symbolic real used as an index")

    def __ceil__(self):
        ctx = core.cur()
        n = z3.Int(ctx.fresh_name("ceil"))
        ctx.assume_expr(z3.And(z3.ToReal(n) - 1 < self.t, self.t <= z3.ToReal(n)))
        return SymInt(n)

    def __floor__(self):
        ctx = core.cur()
        n = z3.Int(ctx.fresh_name("floor"))
        ctx.assume_expr(z3.And(z3.ToReal(n) <= self.t, self.t < z3.ToReal(n) + 1))
        return SymInt(n)

    # --- text ----------------------------------------------------------------------------
    def __format__(self, spec):
        return fmt_token(self, spec)

    def __str__(self):
        return fmt_token(self, "")

    def __repr__(self):
        if core.active():
            return fmt_token(self, "r")
        return "SymReal(%s)" % (self.t,)


HYPOT_LIGHT = [False]


class SymHypot(SymReal):
    """Result of hypot(a, b) (+ an offset): the non-negative h with h*h == sq.

    Comparisons are encoded polynomially (h <= c  <=>  c >= 0 and sq <= c*c) so that no square-root
    variable reaches the solver; any other use materialises the fresh variable h with its contract.
    """
    __slots__ = ("sq", "off", "_mat", "ab")

    def __init__(self, sq, off=None, ab=None):
        self.sq = sq
        self.off = off
        self._mat = None
        self.ab = ab

    @property
    def t(self):
        if self._mat is None:
            ctx = core.cur()
            h = z3.Real(ctx.fresh_name("hyp"))
            if HYPOT_LIGHT[0] and self.ab is not None:
                ta, tb = self.ab
                aa = z3.If(ta >= 0, ta, -ta)
                bb = z3.If(tb >= 0, tb, -tb)
                ctx.assume_expr(z3.And(h >= aa, h >= bb, h <= aa + bb))
            else:
                ctx.nonlinear = True
                ctx.assume_expr(z3.And(h >= 0, h * h == self.sq))
            self._mat = h if self.off is None else z3.simplify(h + self.off)
        return self._mat

    def _shift(self, d):
        if self._mat is not None:
            return None
        off = d if self.off is None else z3.simplify(self.off + d)
        return SymHypot(self.sq, off, self.ab)

    def __add__(self, o):
        ot = None if isinstance(o, SymHypot) else to_real(o)
        r = self._shift(ot) if ot is not None else None
        return r if r is not None else SymReal.__add__(self, o)

    __radd__ = __add__

    def __sub__(self, o):
        ot = None if isinstance(o, SymHypot) else to_real(o)
        r = self._shift(-ot) if ot is not None else None
        return r if r is not None else SymReal.__sub__(self, o)

    def _poly(self, o, kind):
        if self._mat is not None or isinstance(o, SymHypot):
            return None
        ot = to_real(o)
        if ot is None:
            return None
        if core.active():
            core.cur().nonlinear = True
        c = ot if self.off is None else ot - self.off
        sq = self.sq
        if kind == "le":
            return _mk_bool(z3.And(c >= 0, sq <= c * c))
        if kind == "lt":
            return _mk_bool(z3.And(c > 0, sq < c * c))
        if kind == "ge":
            return _mk_bool(z3.Or(c <= 0, sq >= c * c))
        if kind == "gt":
            return _mk_bool(z3.Or(c < 0, sq > c * c))
        if kind == "eq":
            return _mk_bool(z3.And(c >= 0, sq == c * c))
        return _mk_bool(z3.Or(c < 0, sq != c * c))

    def __le__(self, o):
        r = self._poly(o, "le")
        return r if r is not None else SymReal.__le__(self, o)

    def __lt__(self, o):
        r = self._poly(o, "lt")
        return r if r is not None else SymReal.__lt__(self, o)

    def __ge__(self, o):
        r = self._poly(o, "ge")
        return r if r is not None else SymReal.__ge__(self, o)

    def __gt__(self, o):
        r = self._poly(o, "gt")
        return r if r is not None else SymReal.__gt__(self, o)

    def __eq__(self, o):
        r = self._poly(o, "eq")
        return r if r is not None else SymReal.__eq__(self, o)

    def __ne__(self, o):
        r = self._poly(o, "ne")
        return r if r is not None else SymReal.__ne__(self, o)

    __hash__ = None


def _div(num, den):
    den_s = z3.simplify(den)
    if z3.is_rational_value(den_s):
        if den_s.numerator_as_long() == 0:
            raise ZeroDivisionError("float division by zero")
        return _mk_real(num / den_s)
    if core.cur().decide(den_s == 0):
        raise ZeroDivisionError("float division by zero")
    return _mk_real(num / den_s)


class SymInt(_Num):
    __slots__ = ()

    def _lift(self, o):
        if isinstance(o, SymInt):
            return o.t
        if isinstance(o, bool):
            return z3.IntVal(1 if o else 0)
        if isinstance(o, int):
            return z3.IntVal(o)
        return None

    def __add__(self, o):
        ot = self._lift(o)
        if ot is not None:
            return SymInt(z3.simplify(self.t + ot))
        return SymReal(z3.ToReal(self.t)).__add__(o)

    __radd__ = __add__

    def __sub__(self, o):
        ot = self._lift(o)
        if ot is not None:
            return SymInt(z3.simplify(self.t - ot))
        return SymReal(z3.ToReal(self.t)).__sub__(o)

    def __rsub__(self, o):
        ot = self._lift(o)
        if ot is not None:
            return SymInt(z3.simplify(ot - self.t))
        return SymReal(z3.ToReal(self.t)).__rsub__(o)

    def __mul__(self, o):
        ot = self._lift(o)
        if ot is not None:
            return SymInt(z3.simplify(self.t * ot))
        return SymReal(z3.ToReal(self.t)).__mul__(o)

    __rmul__ = __mul__

    def __truediv__(self, o):
        return SymReal(z3.ToReal(self.t)).__truediv__(o)

    def __rtruediv__(self, o):
        return SymReal(z3.ToReal(self.t)).__rtruediv__(o)

    def __neg__(self):
        return SymInt(z3.simplify(-self.t))

    def __abs__(self):
        return SymInt(z3.simplify(z3.If(self.t >= 0, self.t, -self.t)))

    def __int__(self):
        raise core.Unsupported("C-level int() of a symbolic int (would concretise)")

    def __index__(self):
        raise core.Unsupported("symbolic int used as an index/range bound without a stated bound")

    def __str__(self):
        # reached only through C-level '%s' formatting (log / exception messages); conversions that matter go
        # through the `str` shim of the repo modules.  The placeholder is not valid G-code, so a leak is loud.
        return "<symbolic-int>"

    def __format__(self, spec):
        raise core.Unsupported("format() of a symbolic int")

    def __repr__(self):
        return "SymInt(%s)" % (self.t,)


# -------------------------------------------------------------------------------------------------
# format tokens

PLAIN_SPECS = ("", "r", "s")
# When False, `'e' in str(x)` does not fork: the branch taken for values in the exponent-notation range is
# not explored (it is C07's subject, where the flag is True); both branches denote the same value.
FMT_FORK = [False]


def spec_kind(spec):
    """'repr' (shortest round-trip, may use exponent), 'fixed' ([.N]f, never exponent) or 'other'."""
    if spec in PLAIN_SPECS:
        return "repr"
    sp = spec
    if sp and sp[-1] in "fF":
        body = sp[:-1]
        if body == "" or (body.startswith(".") and body[1:].isdigit()):
            return "fixed"
    return "other"


def exp_range(t):
    """CPython float_repr_style 'short': repr/str use exponent notation iff v != 0 and (|v| < 1e-4 or |v| >= 1e16)."""
    a = z3.If(t >= 0, t, -t)
    return z3.And(t != 0, z3.Or(a < z3.RealVal("1/10000"), a >= z3.RealVal("10000000000000000")))


class FmtTok(str):
    """Text CPython would produce for a symbolic real: a real `str` (marker) that additionally answers
    `'e' in tok` / `'E' in tok` symbolically (exponent-range predicate of the repr contract)."""

    def __new__(cls, tid, term, spec):
        obj = str.__new__(cls, "%s%d%s" % (MARK, tid, MARK))
        obj.term = term
        obj.spec = spec
        return obj

    def __contains__(self, item):
        if item in ("e", "E") and core.active():
            if spec_kind(self.spec) == "repr":
                # CPython writes the exponent marker in lower case
                if item == "E" or not FMT_FORK[0]:
                    return False
                return core.cur().decide(exp_range(self.term))
            if spec_kind(self.spec) == "fixed":
                return False
            raise core.Unsupported("'e' in text formatted with spec %r" % self.spec)
        return str.__contains__(self, item)


def fmt_token(value, spec):
    ctx = core.cur()
    tid = len(ctx.fmt_table) + 1
    ctx.fmt_table[tid] = (value.t, spec)
    ctx.fmt_events.append((tid, value.t, spec, len(ctx.pc)))
    return FmtTok(tid, value.t, spec)


def fresh_real(name, ctx=None, register=True):
    ctx = ctx or core.cur()
    c = z3.Real(name)
    if register:
        ctx.register_input(name, c)
    return SymReal(c)


def fresh_bool(name, ctx=None, register=True):
    ctx = ctx or core.cur()
    c = z3.Bool(name)
    if register:
        ctx.register_input(name, c)
    return SymBool(c)


def fresh_int(name, ctx=None, register=True):
    ctx = ctx or core.cur()
    c = z3.Int(name)
    if register:
        ctx.register_input(name, c)
    return SymInt(c)


def is_sym(v):
    return isinstance(v, (SymReal, SymInt, SymBool))
