"""symx.core -- path explorer (DFS by re-execution) on top of z3.

One *scenario* is an ordinary Python callable that builds objects of the real code base, feeds
them proxy values (symx.values) and states obligations with `check`.  The explorer runs the
scenario repeatedly; every branch on a symbolic condition goes through `Ctx.decide`, which asks
z3 which polarities are feasible under the current path condition, follows one and queues the
other as a decision prefix to be re-executed later.

Verdict vocabulary (see DESIGN.md section 1):
  * every obligation `unsat`                     -> holds within the bounds
  * some obligation `sat`                        -> candidate violation (model kept for replay)
  * `unknown` / unsupported construct / timeout  -> inconclusive
"""
from __future__ import annotations

import os
import sys
import time
import traceback
from fractions import Fraction

import z3


class PathAbort(BaseException):
    """Raised to abandon the current path (infeasible assumption, bound exceeded)."""

    def __init__(self, reason):
        BaseException.__init__(self, reason)
        self.reason = reason


class Unsupported(Exception):
    """A construct the proxies cannot model was reached on a feasible path."""


class HarnessError(Exception):
    """The harness/oracle itself is broken (never a verdict about the code)."""


FEAS_TIMEOUT_MS = int(os.environ.get("SYMX_FEAS_TIMEOUT_MS", "10000"))
OBL_TIMEOUT_MS = int(os.environ.get("SYMX_OBL_TIMEOUT_MS", "30000"))
NRA_TIMEOUT_MS = int(os.environ.get("SYMX_NRA_TIMEOUT_MS", "60000"))
NRA_MODE = os.environ.get("SYMX_NRA_MODE", "oneshot")
HYBRID_MS = int(os.environ.get("SYMX_HYBRID_MS", "300"))


def z3val(v):
    """Convert a z3 numeral/bool model value into a Python value (Fraction/bool/int)."""
    if z3.is_true(v):
        return True
    if z3.is_false(v):
        return False
    if z3.is_int_value(v):
        return v.as_long()
    if z3.is_rational_value(v):
        return Fraction(v.numerator_as_long(), v.denominator_as_long())
    if z3.is_algebraic_value(v):
        a = v.approx(20)
        return Fraction(a.numerator_as_long(), a.denominator_as_long())
    return None


class Violation(object):
    __slots__ = ("label", "inputs", "prefix", "detail", "extra")

    def __init__(self, label, inputs, prefix, detail, extra=None):
        self.label = label
        self.inputs = inputs      # name -> python value (Fraction / bool / int / str)
        self.prefix = prefix      # decision prefix of the path
        self.detail = detail      # free text (rendered obligation)
        self.extra = extra or {}  # harness supplied (e.g. program rendering hints)

    def to_json(self):
        def conv(v):
            if isinstance(v, Fraction):
                return {"num": str(v.numerator), "den": str(v.denominator)}
            return v
        return {"label": self.label, "inputs": {k: conv(v) for k, v in self.inputs.items()},
                "prefix": list(self.prefix), "detail": self.detail, "extra": self.extra}


class Stats(object):
    FIELDS = ("paths", "paths_aborted", "decisions", "forks", "feas_queries", "feas_unknown",
              "obligations", "obl_trivial", "obl_unsat", "obl_sat", "obl_unknown",
              "bound_exceeded", "solver_s", "exceptions", "obl_s", "nra_calls")

    def __init__(self):
        for f in self.FIELDS:
            setattr(self, f, 0)
        self.cover = {}
        self.labels = {}
        self.unsupported = []
        self.samples = []
        self.functions = set()
        self.slowest = (0.0, "", "", "")

    def merge(self, other):
        for f in self.FIELDS:
            setattr(self, f, getattr(self, f) + getattr(other, f))
        for k, v in other.cover.items():
            self.cover[k] = self.cover.get(k, 0) + v
        for k, v in other.labels.items():
            cur = self.labels.setdefault(k, [0, 0, 0])
            for i in range(3):
                cur[i] += v[i]
        self.functions |= other.functions
        if other.slowest[0] > self.slowest[0]:
            self.slowest = other.slowest
        self.unsupported.extend(other.unsupported[:5])
        if len(self.samples) < 6:
            self.samples.extend(other.samples[: 6 - len(self.samples)])

    def as_dict(self):
        d = {f: getattr(self, f) for f in self.FIELDS}
        d["solver_s"] = round(d["solver_s"], 3)
        d["obl_s"] = round(d["obl_s"], 3)
        d["slowest_obligation"] = list(self.slowest)
        d["cover"] = dict(self.cover)
        d["labels"] = {k: {"unsat": v[0], "sat": v[1], "unknown": v[2]} for k, v in self.labels.items()}
        d["unsupported"] = self.unsupported[:10]
        return d


class Ctx(object):
    """Explorer state of one process."""

    def __init__(self, seed=0):
        self.seed = seed
        self.solver = z3.Solver()
        self.solver.set("timeout", FEAS_TIMEOUT_MS)
        self.solver.set("random_seed", seed & 0x7FFFFFFF)
        self.stack = []          # exprs mirrored as solver frames
        self.stats = Stats()
        self.violations = []
        self.max_violations = 40
        self.global_axioms = []  # asserted once at solver level 0
        self._axioms_installed = 0
        self.reset_run([])
        self.known_predicates = []
        self.must_fail = False   # twin mode: final obligations replaced by False
        self.stop_on_first = False

    # ---- per-run state -------------------------------------------------------------------
    def reset_run(self, prefix):
        self.prefix = list(prefix)
        self.decisions = []
        self.pc = []
        self.model = None
        self.model_at = -1
        self.fresh_counter = {}
        self.inputs = {}         # name -> z3 const (reported in counterexamples)
        self.choices = {}        # name -> concrete choice taken on this path
        self.run_cover = []      # cover labels reached on this path (replay-alignment guard)
        self.char_dom = {}       # symbolic character name -> interval set still possible on this path
        self._in_summary = False
        self.nonlinear = False
        self.fmt_table = {}      # marker id -> (z3 term, spec)
        self.fmt_events = []
        self.key_table = {}      # numeric key literal -> SymReal
        self.notes = {}          # harness scratch (rendering hints for replay)
        self.pending_children = []
        self.trig = None

    # ---- names ---------------------------------------------------------------------------
    def fresh_name(self, base):
        n = self.fresh_counter.get(base, 0) + 1
        self.fresh_counter[base] = n
        return "%s!%d" % (base, n)

    def register_input(self, name, const):
        self.inputs[name] = const

    # ---- solver synchronisation ------------------------------------------------------------
    def _install_axioms(self):
        if self._axioms_installed < len(self.global_axioms):
            # axioms live below every frame: rebuild the solver stack
            while self.stack:
                self.solver.pop()
                self.stack.pop()
            for ax in self.global_axioms[self._axioms_installed:]:
                self.solver.add(ax)
            self._axioms_installed = len(self.global_axioms)

    def _sync(self):
        self._install_axioms()
        pc, st = self.pc, self.stack
        n = 0
        m = min(len(pc), len(st))
        while n < m and pc[n].eq(st[n]):
            n += 1
        while len(st) > n:
            self.solver.pop()
            st.pop()
        for e in pc[n:]:
            self.solver.push()
            self.solver.add(e)
            st.append(e)

    def _check(self, *extra, obligation=False):
        """check pc (+ extra); returns ('sat'|'unsat'|'unknown', model or None).

        Linear paths: incremental solver.  Nonlinear paths (hybrid mode): incremental solver under a
        short time limit first (most feasibility queries are easy), one-shot QF_NRA (nlsat) when it
        answers unknown."""
        t0 = time.time()
        if self.nonlinear and (NRA_MODE == "oneshot" or (obligation and NRA_MODE == "hybrid")):
            res, mdl = self._fallback_nra(extra)
            self.stats.solver_s += time.time() - t0
            return res, mdl
        self._sync()
        short = self.nonlinear and NRA_MODE == "hybrid"
        if short:
            self.solver.set("timeout", HYBRID_MS)
        if extra:
            self.solver.push()
            for e in extra:
                self.solver.add(e)
        try:
            r = self.solver.check()
            res = str(r)
            mdl = None
            if res == "sat":
                mdl = self.solver.model()
        except z3.Z3Exception:
            res, mdl = "unknown", None
        if extra:
            self.solver.pop()
        if short:
            self.solver.set("timeout", FEAS_TIMEOUT_MS)
        if res == "unknown":
            res, mdl = self._fallback_nra(extra)
        self.stats.solver_s += time.time() - t0
        return res, mdl

    def _fallback_nra(self, extra):
        self.stats.nra_calls += 1
        try:
            s = z3.SolverFor("QF_NRA")
            s.set("timeout", NRA_TIMEOUT_MS)
            for ax in self.global_axioms:
                s.add(ax)
            for e in self.pc:
                s.add(e)
            for e in extra:
                s.add(e)
            r = str(s.check())
            if r == "sat":
                return r, s.model()
            return r, None
        except z3.Z3Exception:
            return "unknown", None

    # ---- decisions -------------------------------------------------------------------------
    def add_pc(self, e):
        self.pc.append(e)

    def decide(self, cond):
        """Branch on z3 Bool `cond`; returns the Python bool taken on this path."""
        cond = z3.simplify(cond)
        if z3.is_true(cond):
            return True
        if z3.is_false(cond):
            return False
        idx = len(self.decisions)
        self.stats.decisions += 1
        if idx < len(self.prefix):
            val = bool(self.prefix[idx])
            self.decisions.append(val)
            self.pc.append(cond if val else z3.Not(cond))
            return val
        ncond = z3.Not(cond)
        if self._in_summary:
            self.pending_children.append(self.decisions + [False])
            self.decisions.append(True)
            self.pc.append(cond)
            return True
        t_ok = f_ok = None
        if self.model is not None and self.model_at == len(self.pc):
            mv = self.model.eval(cond, model_completion=True)
            if z3.is_true(mv):
                t_ok = True
            elif z3.is_false(mv):
                f_ok = True
        keep_model = self.model
        if t_ok is None:
            self.stats.feas_queries += 1
            r, m = self._check(cond)
            t_ok = (r != "unsat")
            if r == "unknown":
                self.stats.feas_unknown += 1
            keep_model_t = m if r == "sat" else None
        else:
            keep_model_t = keep_model
        if f_ok is None:
            if not t_ok:
                f_ok = True   # pc is satisfiable (invariant), so the other side must be
                keep_model_f = None
            else:
                self.stats.feas_queries += 1
                r, m = self._check(ncond)
                f_ok = (r != "unsat")
                if r == "unknown":
                    self.stats.feas_unknown += 1
                keep_model_f = m if r == "sat" else None
        else:
            keep_model_f = keep_model
        if t_ok and f_ok:
            self.stats.forks += 1
            self.pending_children.append(self.decisions + [False])
            val = True
        elif t_ok:
            val = True
        elif f_ok:
            val = False
        else:
            raise PathAbort("infeasible")
        self.decisions.append(val)
        self.pc.append(cond if val else ncond)
        self.model = keep_model_t if val else keep_model_f
        self.model_at = len(self.pc) if self.model is not None else -1
        return val

    def choose(self, n, label="choice"):
        """Nondeterministic concrete choice in range(n): a pure fork (no solver involved)."""
        name = self.fresh_name("sel_" + label)
        if n <= 1:
            self.choices[name] = 0
            return 0
        idx = len(self.decisions)
        self.stats.decisions += 1
        if idx < len(self.prefix):
            val = int(self.prefix[idx])
        else:
            val = 0
            self.stats.forks += n - 1
            for k in range(n - 1, 0, -1):
                self.pending_children.append(self.decisions + [k])
        self.decisions.append(val)
        self.choices[name] = val
        return val

    def summarise(self, fn, *args):
        """Execute the pure, boolean-valued `fn(*args)` of the real code on all of its paths and
        merge them into one z3 Bool (Or of path-condition AND result) -- the caller does not fork.

        The body is still executed symbolically in full; only the forking of the caller is merged.
        Inner branches are not feasibility-checked (an infeasible disjunct is harmless)."""
        base_len = len(self.pc)
        saved = (self.decisions, self.prefix, self.pending_children, self.model, self.model_at,
                 self._in_summary)
        outcomes = []
        todo = [[]]
        n = 0
        try:
            self._in_summary = True
            while todo:
                lp = todo.pop()
                n += 1
                if n > 512:
                    raise Unsupported("summarise: more than 512 inner paths")
                self.decisions, self.prefix, self.pending_children = [], lp, []
                del self.pc[base_len:]
                try:
                    r = fn(*args)
                except PathAbort:
                    todo.extend(self.pending_children)
                    continue
                conj = list(self.pc[base_len:])
                outcomes.append((conj, r))
                todo.extend(self.pending_children)
        finally:
            del self.pc[base_len:]
            (self.decisions, self.prefix, self.pending_children, self.model, self.model_at,
             self._in_summary) = saved
        disj = []
        for conj, r in outcomes:
            if r is None or r is False:
                continue
            if r is True:
                rt = z3.BoolVal(True)
            elif hasattr(r, "t") and z3.is_bool(r.t):
                rt = r.t
            else:
                raise Unsupported("summarise: non-boolean result %r" % (r,))
            disj.append(z3.And(*(conj + [rt])) if conj else rt)
        if not disj:
            return z3.BoolVal(False)
        return z3.simplify(z3.Or(*disj))

    def concretize_int(self, term, lo, hi, what="int"):
        """Fork over the integer values lo..hi of z3 Int `term`; abort path beyond the bound."""
        for k in range(lo, hi + 1):
            if self.decide(term == k):
                return k
        self.stats.bound_exceeded += 1
        raise PathAbort("bound-exceeded:" + what)

    def assume_expr(self, e):
        """Add a hypothesis.  The path condition must stay satisfiable (otherwise every later
        obligation would hold vacuously), so feasibility is checked right away."""
        e = z3.simplify(e)
        if z3.is_true(e):
            return
        if z3.is_false(e):
            raise PathAbort("assume-false")
        self.pc.append(e)
        self.model = None
        self.model_at = -1
        if self._in_summary:
            return
        if len(self.decisions) < len(self.prefix):
            return      # replaying a prefix that was feasible when it was first explored
        self.stats.feas_queries += 1
        r, m = self._check()
        if r == "unsat":
            raise PathAbort("assume-infeasible")
        if r == "sat":
            self.model, self.model_at = m, len(self.pc)

    def assume_checked(self, e):
        """assume + make sure the path is still feasible (abort otherwise)."""
        self.assume_expr(e)
        r, m = self._check()
        self.stats.feas_queries += 1
        if r == "unsat":
            raise PathAbort("assume-infeasible")
        if r == "sat":
            self.model, self.model_at = m, len(self.pc)

    # ---- obligations -----------------------------------------------------------------------
    def cover(self, label):
        self.stats.cover[label] = self.stats.cover.get(label, 0) + 1
        self.run_cover.append(label)

    def _label(self, label, i):
        self.stats.labels.setdefault(label, [0, 0, 0])[i] += 1

    def check(self, cond, label, detail=None, final=True):
        """State obligation `cond` (z3 Bool or python bool) under the current path condition."""
        self.stats.obligations += 1
        if self.must_fail and final:
            cond = z3.BoolVal(False)
        if isinstance(cond, bool):
            cond = z3.BoolVal(cond)
        neg = z3.simplify(z3.Not(cond))
        if z3.is_false(neg):
            self.stats.obl_trivial += 1
            self.stats.obl_unsat += 1
            self._label(label, 0)
            return True
        neg = self._ctx_simplify(neg)
        if z3.is_false(neg):
            self.stats.obl_trivial += 1
            self.stats.obl_unsat += 1
            self._label(label, 0)
            return True
        t_obl = time.time()
        r, m = self._check(neg, obligation=True)
        t_obl = time.time() - t_obl
        self.stats.obl_s += t_obl
        if t_obl > self.stats.slowest[0]:
            self.stats.slowest = (round(t_obl, 2), label, r, str(neg)[:300])
        if r == "unsat":
            self.stats.obl_unsat += 1
            self._label(label, 0)
            if len(self.stats.samples) < 3:
                self.stats.samples.append({"label": label, "path_decisions": len(self.decisions),
                                           "negated_obligation": str(neg)[:400], "verdict": "unsat"})
            return True
        if r == "sat":
            self.stats.obl_sat += 1
            self._label(label, 1)
            if len(self.violations) < self.max_violations:
                m = self._nice_model(neg) or m
                vals = {}
                for name, const in self.inputs.items():
                    vals[name] = z3val(m.eval(const, model_completion=True))
                vals.update(self.choices)
                self.violations.append(Violation(label, vals, list(self.decisions),
                                                 detail or str(neg)[:600],
                                                 dict(self.notes, _covered=list(self.run_cover))))
            return False
        self.stats.obl_unknown += 1
        self._label(label, 2)
        return None

    def _ctx_simplify(self, e):
        """Replace atoms that literally occur in the path condition by their truth value.

        Sound (the pc conjuncts hold on this path) and it removes If-terms whose condition the path
        already decided, which is what makes the nonlinear queries tractable for nlsat."""
        subs = []
        seen = set()

        def atom(a, val):
            k = a.get_id()
            if k not in seen:
                seen.add(k)
                subs.append((a, z3.BoolVal(val)))
        for c in self.pc:
            c = z3.simplify(c)
            todo = [c]
            while todo:
                x = todo.pop()
                if z3.is_and(x):
                    todo.extend(x.children())
                elif z3.is_not(x):
                    y = x.arg(0)
                    if not (z3.is_and(y) or z3.is_or(y)):
                        atom(y, False)
                elif not z3.is_or(x) and z3.is_bool(x) and not z3.is_true(x):
                    atom(x, True)
        if subs:
            e = z3.simplify(z3.substitute(e, *subs))
        # If-conditions that the path condition *implies* (not literally contains): decide them with
        # the incremental solver (cheap, mostly linear) and substitute
        conds = []
        seen2 = set()
        todo = [e]
        nonlin = False
        while todo:
            x = todo.pop()
            if x.get_id() in seen2:
                continue
            seen2.add(x.get_id())
            if z3.is_app(x):
                k = x.decl().kind()
                if k == z3.Z3_OP_ITE and not z3.is_bool(x) and len(conds) < 12:
                    conds.append(x.arg(0))
                elif k == z3.Z3_OP_MUL and sum(1 for c in x.children() if not z3.is_rational_value(c)) > 1:
                    nonlin = True
                todo.extend(x.children())
        if conds and nonlin:
            subs2 = []
            t_c = time.time()
            self._sync()
            self.solver.set("timeout", 150)
            try:
                for c in conds:
                    self.solver.push()
                    self.solver.add(z3.Not(c))
                    r1 = str(self.solver.check())
                    self.solver.pop()
                    if r1 == "unsat":
                        subs2.append((c, z3.BoolVal(True)))
                        continue
                    self.solver.push()
                    self.solver.add(c)
                    r2 = str(self.solver.check())
                    self.solver.pop()
                    if r2 == "unsat":
                        subs2.append((c, z3.BoolVal(False)))
            finally:
                self.solver.set("timeout", FEAS_TIMEOUT_MS)
                self.stats.solver_s += time.time() - t_c
            if subs2:
                e = z3.simplify(z3.substitute(e, *subs2))
        return e

    def _nice_model(self, neg):
        """Try to find a counterexample on a dyadic grid (exact in IEEE floats, easy to read)."""
        reals = [c for c in self.inputs.values() if c.sort() == z3.RealSort()]
        if not reals:
            return None
        for den, bound in ((4, 200), (64, 1000)):
            self._sync()
            self.solver.push()
            try:
                self.solver.set("timeout", 3000)
                self.solver.add(neg)
                for i, c in enumerate(reals):
                    k = z3.Int("grid!%d" % i)
                    self.solver.add(c * den == z3.ToReal(k), c <= bound, c >= -bound)
                if str(self.solver.check()) == "sat":
                    return self.solver.model()
            except z3.Z3Exception:
                pass
            finally:
                self.solver.pop()
                self.solver.set("timeout", FEAS_TIMEOUT_MS)
        return None

    def check_min(self, hyps, concl, label, detail=None, timeout_ms=None):
        """Discharge `concl` from the explicit hypotheses `hyps` only (each must already be part of the path
        condition), in a fresh QF_NRA solver: a lemma proved from a subset of the path condition holds on the
        path.  On success the lemma is added to the path condition.  Returns True / None (unknown) / False."""
        ids = set(c.get_id() for c in self.pc)
        for h in hyps:
            if h.get_id() not in ids:
                raise HarnessError("check_min: hypothesis is not part of the path condition: %s" % str(h)[:200])
        self.stats.obligations += 1
        t0 = time.time()
        s = z3.SolverFor("QF_NRA")
        s.set("timeout", timeout_ms or NRA_TIMEOUT_MS)
        for ax in self.global_axioms:
            s.add(ax)
        for h in hyps:
            s.add(h)
        s.add(z3.Not(concl))
        r = str(s.check())
        dt = time.time() - t0
        self.stats.solver_s += dt
        self.stats.obl_s += dt
        if dt > self.stats.slowest[0]:
            self.stats.slowest = (round(dt, 2), label, r, str(concl)[:300])
        if r == "unsat":
            self.stats.obl_unsat += 1
            self._label(label, 0)
            self.pc.append(concl)
            return True
        if r == "sat":
            # not provable from the subset: fall back to the full path condition
            self.stats.obligations -= 1
            rr = self.check(concl, label, detail)
            if rr is True:
                self.pc.append(concl)
            return rr
        self.stats.obl_unknown += 1
        self._label(label, 2)
        return None

    def fail(self, label, detail):
        """Obligation that is violated on this whole path (e.g. an exception escaped)."""
        return self.check(False, label, detail)

    # ---- running ---------------------------------------------------------------------------
    def violations_this_run(self):
        return len(self.violations) - self._viol_at_start

    def run_one(self, scenario, prefix):
        self.reset_run(prefix)
        self._viol_at_start = len(self.violations)
        try:
            scenario(self)
            self.stats.paths += 1
            if WITNESS_MODE and not self.violations_this_run():
                # replay-alignment sampling: a model of this COMPLETED path, reported like a violation
                self.check(False, "path-witness", "completed path", final=False)
        except PathAbort as pa:
            self.stats.paths_aborted += 1
            if pa.reason == "infeasible":
                pass
        except Unsupported as u:
            self.stats.paths += 1
            if len(self.stats.unsupported) < 10:
                self.stats.unsupported.append("%s @prefix=%s" % (u, self.decisions[:40]))
        except Exception as ex:  # harness bug or unmodelled construct: inconclusive, never a verdict
            self.stats.paths += 1
            self.stats.exceptions += 1
            if len(self.stats.unsupported) < 10:
                tb = traceback.format_exc().strip().splitlines()
                self.stats.unsupported.append("EXC %r @prefix=%s :: %s" % (
                    ex, self.decisions[:40], " | ".join(tb[-6:])))
        return self.pending_children

    def explore(self, scenario, roots=([],), max_paths=None, deadline=None):
        """DFS from the given root prefixes; returns leftover prefixes (if budget ran out)."""
        todo = [list(r) for r in roots]
        n = 0
        while todo:
            if max_paths is not None and n >= max_paths:
                break
            if deadline is not None and time.time() > deadline:
                break
            if self.stop_on_first and self.violations:
                break
            prefix = todo.pop()
            children = self.run_one(scenario, prefix)
            todo.extend(reversed(children))
            n += 1
        return todo


# ---------------------------------------------------------------------------------------------
# current context (proxies look it up)
_CUR = None
WITNESS_MODE = False     # set (before forking the workers) to collect one input model per completed path


def cur():
    if _CUR is None:
        raise HarnessError("no active symx context")
    return _CUR


def set_cur(ctx):
    global _CUR
    _CUR = ctx


def active():
    return _CUR is not None


# ---------------------------------------------------------------------------------------------
# parallel driver (fork; dynamic re-splitting of unfinished subtrees)
_W = {}
_FUNCS = set()
_MON = [False]


def _install_monitor():
    """Record which functions of the repository are executed under the explorer (evidence)."""
    if _MON[0]:
        return
    _MON[0] = True
    mon = getattr(sys, "monitoring", None)
    if mon is None:
        return
    repo = os.environ.get("VERIF_REPO", "/repo")
    tool = 4
    try:
        mon.use_tool_id(tool, "symx")
    except ValueError:
        return

    def on_start(code, offset):
        if code.co_filename.startswith(repo):
            _FUNCS.add("%s:%s@%d" % (os.path.basename(code.co_filename), code.co_qualname,
                                     code.co_firstlineno))
        return mon.DISABLE
    mon.register_callback(tool, mon.events.PY_START, on_start)
    mon.set_events(tool, mon.events.PY_START)



def _worker_init(scenario, seed, setup, must_fail, stop_on_first):
    ctx = Ctx(seed)
    ctx.must_fail = must_fail
    ctx.stop_on_first = stop_on_first
    if setup is not None:
        setup(ctx)
    set_cur(ctx)
    _install_monitor()
    _W["ctx"] = ctx
    _W["scenario"] = scenario


def _worker_task(args):
    roots, max_paths, tmax = args
    ctx = _W["ctx"]
    ctx.stats = Stats()
    ctx.violations = []
    left = ctx.explore(_W["scenario"], roots, max_paths=max_paths, deadline=time.time() + tmax)
    ctx.stats.functions |= _FUNCS
    _FUNCS.clear()
    return ctx.stats, [v.to_json() for v in ctx.violations], left


def run_scenario(scenario, seed=0, workers=None, setup=None, must_fail=False, chunk_paths=150,
                 chunk_s=20.0, budget_s=None, stop_on_first=False, max_violations=60, early_stop=24):
    """Explore `scenario` exhaustively; returns (Stats, [violation json], complete: bool)."""
    import multiprocessing as mp
    workers = workers or int(os.environ.get("SYMX_WORKERS", "0")) or min(16, os.cpu_count() or 1)
    total = Stats()
    viols = []
    t_end = None if budget_s is None else time.time() + budget_s
    if workers <= 1:
        _worker_init(scenario, seed, setup, must_fail, stop_on_first)
        todo = [[]]
        while todo:
            if t_end is not None and time.time() > t_end:
                break
            st, vs, todo = _worker_task((todo, chunk_paths, chunk_s))
            total.merge(st)
            viols.extend(vs)
            if (stop_on_first and viols) or len(viols) >= early_stop:
                break
        set_cur(None)
        return total, viols[:max_violations], not todo
    mpctx = mp.get_context("fork")
    pool = mpctx.Pool(workers, initializer=_worker_init,
                      initargs=(scenario, seed, setup, must_fail, stop_on_first))
    complete = True
    try:
        queue = [[]]
        inflight = []
        first = True
        while queue or inflight:
            if t_end is not None and time.time() > t_end:
                complete = False
                break
            if (stop_on_first and viols) or len(viols) >= early_stop:
                complete = False
                break
            while queue and len(inflight) < workers * 2:
                if first:
                    # seed phase: expand a little so there is something to distribute
                    roots, queue = queue[:1], queue[1:]
                    inflight.append(pool.apply_async(_worker_task, ((roots, 12, chunk_s),)))
                    first = False
                else:
                    # hand out the *shallowest* prefixes first: they carry the biggest subtrees
                    queue.sort(key=len)
                    nroots = max(1, min(8, len(queue) // (workers * 2)))
                    roots, queue = queue[:nroots], queue[nroots:]
                    inflight.append(pool.apply_async(_worker_task, ((roots, chunk_paths, chunk_s),)))
            done = [r for r in inflight if r.ready()]
            if not done:
                time.sleep(0.005)
                continue
            for r in done:
                inflight.remove(r)
                st, vs, left = r.get()
                total.merge(st)
                viols.extend(vs)
                queue.extend(left)
        if queue or inflight:
            complete = False
    finally:
        pool.terminate()
        pool.join()
    return total, viols[:max_violations], complete
