"""symx.strings -- symbolic strings: a sequence of concrete characters and symbolic characters.

SymStr is NOT a str subclass: any C-level consumption raises TypeError (loud) instead of concretising.
The length is concrete on every path.  A symbolic character is a z3 Int (code point); characters that are
plain variables carry an interval-set *domain* so that unary class tests (regex character classes, digit
tests) are decided by domain splitting without a solver call.
"""
from __future__ import annotations

import z3

from . import core
from .values import SymBool, SymInt, SymReal, _mk_bool

MAXCP = 0x10FFFF
DIGITS = [(48, 57)]


# ---- interval sets ---------------------------------------------------------------------------------
def norm(ranges):
    out = []
    for lo, hi in sorted(ranges):
        if lo > hi:
            continue
        if out and lo <= out[-1][1] + 1:
            out[-1] = (out[-1][0], max(out[-1][1], hi))
        else:
            out.append((lo, hi))
    return out


def inter(a, b):
    out = []
    for l1, h1 in a:
        for l2, h2 in b:
            lo, hi = max(l1, l2), min(h1, h2)
            if lo <= hi:
                out.append((lo, hi))
    return norm(out)


def minus(a, b):
    comp = []
    prev = 0
    for lo, hi in norm(b):
        if lo > prev:
            comp.append((prev, lo - 1))
        prev = hi + 1
    if prev <= MAXCP:
        comp.append((prev, MAXCP))
    return inter(a, comp)


def size(a):
    return sum(h - l + 1 for l, h in a)


def z3_in(t, ranges):
    return z3.Or(*[(t == lo) if lo == hi else z3.And(t >= lo, t <= hi) for lo, hi in ranges]) if ranges else z3.BoolVal(False)


# ---- characters ----------------------------------------------------------------------------------------
class SymChar(object):
    __slots__ = ("t", "name")

    def __init__(self, t, name=None):
        self.t = t
        self.name = name      # set for plain variables (then a domain is tracked)

    def __repr__(self):
        return "<%s>" % (self.name or self.t)


def fresh_char(name, domain):
    ctx = core.cur()
    c = z3.Int(name)
    ctx.register_input(name, c)
    ctx.char_dom[name] = norm(domain)
    ctx.pc.append(z3_in(c, norm(domain)))
    return SymChar(c, name)


def char_test(ch, ranges):
    """Is character `ch` (str of length 1 or SymChar) in the interval set `ranges`?  (may fork)"""
    if isinstance(ch, str):
        o = ord(ch)
        return any(lo <= o <= hi for lo, hi in ranges)
    ctx = core.cur()
    if ch.name is None:
        return ctx.decide(z3_in(ch.t, ranges))
    dom = ctx.char_dom[ch.name]
    yes = inter(dom, ranges)
    if not yes:
        return False
    no = minus(dom, ranges)
    if not no:
        return True
    # fork without a solver call: both sides are non-empty sets of code points
    idx = len(ctx.decisions)
    ctx.stats.decisions += 1
    if idx < len(ctx.prefix):
        val = bool(ctx.prefix[idx])
    elif ctx._in_summary:
        raise core.Unsupported("character test inside a summary")
    else:
        val = True
        ctx.stats.forks += 1
        ctx.pending_children.append(ctx.decisions + [False])
    ctx.decisions.append(val)
    new = yes if val else no
    ctx.char_dom[ch.name] = new
    ctx.pc.append(z3_in(ch.t, new))
    ctx.model = None
    ctx.model_at = -1
    return val


def char_eq(a, b):
    """Equality of two characters -> bool / SymBool-like decision value (python bool after forking if needed)."""
    if isinstance(a, str) and isinstance(b, str):
        return a == b
    if isinstance(a, str):
        a, b = b, a
    if isinstance(b, str):
        return char_test(a, [(ord(b), ord(b))])
    if a is b:
        return True
    return core.cur().decide(a.t == b.t)


def char_term(ch):
    return z3.IntVal(ord(ch)) if isinstance(ch, str) else ch.t


# ---- strings -----------------------------------------------------------------------------------------------
class SymStr(object):
    __slots__ = ("e",)

    def __init__(self, elems):
        self.e = tuple(elems)

    @staticmethod
    def of(x):
        if isinstance(x, SymStr):
            return x
        if isinstance(x, str):
            return SymStr(tuple(x))
        raise TypeError("cannot make a SymStr from %r" % (type(x),))

    def length(self):
        return len(self.e)

    def __len__(self):
        return len(self.e)

    def __bool__(self):
        return len(self.e) > 0

    def __iter__(self):
        for c in self.e:
            yield SymStr((c,))

    def __getitem__(self, k):
        if isinstance(k, slice):
            return SymStr(self.e[k])
        return SymStr((self.e[k],))

    def __add__(self, o):
        if isinstance(o, (str, SymStr)):
            return SymStr(self.e + SymStr.of(o).e)
        return NotImplemented

    def __radd__(self, o):
        if isinstance(o, str):
            return SymStr(tuple(o) + self.e)
        return NotImplemented

    def _cmp(self, o):
        if not isinstance(o, (str, SymStr)):
            return False
        oe = SymStr.of(o).e
        if len(oe) != len(self.e):
            return False
        for a, b in zip(self.e, oe):
            if not char_eq(a, b):
                return False
        return True

    def __eq__(self, o):
        return self._cmp(o)

    def __ne__(self, o):
        return not self._cmp(o)

    def __hash__(self):
        """Using a symbolic string as a dict/set key: its characters are concretised by forking over their
        (small) domains, so that the hash agrees with the hash of the equal concrete str."""
        out = []
        for c in self.e:
            if isinstance(c, str):
                out.append(c)
                continue
            ctx = core.cur()
            if c.name is not None:
                dom = ctx.char_dom[c.name]
                if size(dom) > 64:
                    raise core.Unsupported("symbolic string with a large character domain used as a dict key")
                cands = [k for lo, hi in dom for k in range(lo, hi + 1)]
            else:
                cands = list(range(65, 91)) + list(range(97, 123)) + list(range(48, 58)) + [32, 43, 45, 46]
            val = None
            for k in cands:
                if char_test(c, [(k, k)]):
                    val = k
                    break
            if val is None:
                raise core.Unsupported("cannot concretise a symbolic character used in a dict key")
            out.append(chr(val))
        return hash("".join(out))

    def eq_term(self, o):
        """z3 Bool: this string equals `o` (no forking) -- for obligations."""
        oe = SymStr.of(o).e
        if len(oe) != len(self.e):
            return z3.BoolVal(False)
        cs = []
        for a, b in zip(self.e, oe):
            if a is b or (isinstance(a, str) and isinstance(b, str) and a == b):
                continue
            if isinstance(a, str) and isinstance(b, str):
                return z3.BoolVal(False)
            cs.append(char_term(a) == char_term(b))
        return z3.And(*cs) if cs else z3.BoolVal(True)

    def startswith(self, prefix):
        p = SymStr.of(prefix).e
        if len(p) > len(self.e):
            return False
        return SymStr(self.e[:len(p)])._cmp(SymStr(p))

    def endswith(self, suffix):
        p = SymStr.of(suffix).e
        if len(p) > len(self.e):
            return False
        return SymStr(self.e[len(self.e) - len(p):])._cmp(SymStr(p))

    def upper(self):
        out = []
        for c in self.e:
            if isinstance(c, str):
                out.append(c.upper())
            elif char_test(c, [(97, 122)]):
                out.append(SymChar(z3.simplify(c.t - 32)))
            elif char_test(c, [(0, 127)]):
                out.append(c)
            else:
                raise core.Unsupported("upper() of a non-ASCII symbolic character")
        return SymStr(out)

    def _strip(self, chars, left, right):
        if chars is None:
            cs = tuple(" \t\n\r\x0b\x0c")
        else:
            cs = SymStr.of(chars).e
        es = list(self.e)

        def member(c):
            for x in cs:
                if char_eq(c, x):
                    return True
            return False
        if right:
            while es and member(es[-1]):
                es.pop()
        if left:
            while es and member(es[0]):
                es.pop(0)
        return SymStr(es)

    def rstrip(self, chars=None):
        return self._strip(chars, False, True)

    def lstrip(self, chars=None):
        return self._strip(chars, True, False)

    def strip(self, chars=None):
        return self._strip(chars, True, True)

    def concrete(self):
        """The str if every element is concrete, else None."""
        if all(isinstance(c, str) for c in self.e):
            return "".join(self.e)
        return None

    def __str__(self):
        c = self.concrete()
        if c is not None:
            return c
        # only reached through C-level '%s' formatting of messages (see SymInt.__str__)
        return "<symbolic-string>"

    def __repr__(self):
        return "SymStr(%s)" % "".join(c if isinstance(c, str) else "<%s>" % (c.name or "?") for c in self.e)

    def __format__(self, spec):
        raise core.Unsupported("formatting a symbolic string")

    def __deepcopy__(self, memo):
        return self

    def split(self, sep=None, maxsplit=-1):
        c = self.concrete()
        if c is not None:
            return [SymStr.of(x) for x in c.split(sep, maxsplit)]
        raise core.Unsupported("split() of a symbolic string")

    def render(self, model_val):
        """Concrete text under a model: model_val(name) -> code point."""
        return "".join(c if isinstance(c, str) else chr(model_val(c)) for c in self.e)


def join(sep, items):
    out = []
    first = True
    for it in items:
        if not first:
            out.extend(SymStr.of(sep).e)
        out.extend(SymStr.of(it).e)
        first = False
    return SymStr(out)


# ---- numbers <-> strings ---------------------------------------------------------------------------------------
class SymDigits(SymInt):
    """int() of a digit string: remembers the digit characters so that str() can strip leading zeros."""
    __slots__ = ("digits",)

    def __init__(self, t, digits):
        SymInt.__init__(self, t)
        self.digits = digits


def _digit_val(c):
    if isinstance(c, str):
        if not ("0" <= c <= "9"):
            raise ValueError("invalid literal for int() with base 10: %r" % c)
        return z3.IntVal(ord(c) - 48)
    if not char_test(c, DIGITS):
        raise ValueError("invalid literal for int() with base 10 (symbolic)")
    return c.t - 48


def symstr_to_int(s):
    c = s.concrete()
    if c is not None:
        return int(c)
    if len(s.e) == 0:
        raise ValueError("invalid literal for int() with base 10: ''")
    t = z3.IntVal(0)
    for ch in s.e:
        t = t * 10 + _digit_val(ch)
    return SymDigits(z3.simplify(t), s.e)


def symint_to_str(v):
    """str(int) for symbolic non-negative ints."""
    if isinstance(v, SymDigits):
        ds = list(v.digits)
        # strip leading zeros (forks on each leading digit being '0')
        while len(ds) > 1 and char_test(ds[0], [(48, 48)]):
            ds.pop(0)
        return SymStr(ds)
    return bounded_int_to_str(v.t, 0, 999)


def bounded_int_to_str(t, lo, hi):
    """Decimal rendering of z3 Int `t` known to lie in [lo, hi] (lo >= 0): fresh digit characters tied to t."""
    ctx = core.cur()
    ctx.assume_expr(z3.And(t >= lo, t <= hi))
    ndig = 1
    while 10 ** ndig <= hi and not ctx.decide(t < 10 ** ndig):
        ndig += 1
    chars = []
    total = z3.IntVal(0)
    for i in range(ndig):
        nm = ctx.fresh_name("digit")
        c = z3.Int(nm)
        ctx.char_dom[nm] = [(48, 57)]
        ctx.pc.append(z3.And(c >= 48, c <= 57))
        chars.append(SymChar(c, nm))
        total = total * 10 + (c - 48)
    ctx.assume_expr(total == t)
    return SymStr(chars)


def symstr_to_real(s):
    """float() of text matched by [-+]?[0-9]*\\.?[0-9]+ (no exponent): a linear term over the digit characters."""
    c = s.concrete()
    if c is not None:
        return float(c)
    es = list(s.e)
    if not es:
        raise ValueError("could not convert string to float: ''")
    sign = None
    if isinstance(es[0], str):
        if es[0] in "+-":
            sign = z3.RealVal(-1 if es[0] == "-" else 1)
            es = es[1:]
    elif not char_test(es[0], DIGITS + [(46, 46)]):
        if char_test(es[0], [(45, 45)]):
            sign = z3.RealVal(-1)
        elif char_test(es[0], [(43, 43)]):
            sign = z3.RealVal(1)
        else:
            raise ValueError("could not convert string to float (symbolic)")
        es = es[1:]
    # locate the decimal point
    point = None
    for i, ch in enumerate(es):
        isdot = (ch == ".") if isinstance(ch, str) else (not char_test(ch, DIGITS) and char_test(ch, [(46, 46)]))
        if isdot:
            if point is not None:
                raise ValueError("could not convert string to float (two points)")
            point = i
    ip = es if point is None else es[:point]
    fp = [] if point is None else es[point + 1:]
    if not ip and not fp:
        raise ValueError("could not convert string to float (no digits)")
    val = z3.RealVal(0)
    for ch in ip:
        val = val * 10 + z3.ToReal(_digit_val(ch))
    scale = 1
    for ch in fp:
        scale *= 10
        val = val + z3.ToReal(_digit_val(ch)) / scale
    if sign is not None:
        val = sign * val
    return SymReal(z3.simplify(val))


class SymByte(object):
    """One byte of an ASCII-range symbolic string (for the XOR checksum): z3 BitVec(8)."""
    __slots__ = ("t",)

    def __init__(self, t):
        self.t = t

    def __xor__(self, o):
        return SymByte(self.t ^ _bv(o))

    __rxor__ = __xor__

    def as_int(self):
        return z3.BV2Int(self.t)

    def _cmp(self, o):
        if isinstance(o, SymByte):
            return _mk_bool(self.t == o.t)
        if isinstance(o, SymInt):
            return _mk_bool(z3.BV2Int(self.t) == o.t)
        if isinstance(o, int):
            return _mk_bool(z3.BV2Int(self.t) == o)
        return False

    def __eq__(self, o):
        return self._cmp(o)

    def __ne__(self, o):
        r = self._cmp(o)
        return (not r) if isinstance(r, bool) else ~r

    __hash__ = None

    def __str__(self):
        return "<symbolic-byte>"


def _bv(o):
    if isinstance(o, SymByte):
        return o.t
    if isinstance(o, int):
        return z3.BitVecVal(o, 8)
    raise TypeError("xor with %r" % (o,))


def code_points(s):
    """bytearray(s.encode('utf-8')) for a symbolic string whose symbolic characters are ASCII (checked)."""
    out = []
    for ch in s.e:
        if isinstance(ch, str):
            out.extend(bytearray(ch.encode("utf-8")))
        else:
            if not char_test(ch, [(0, 127)]):
                raise core.Unsupported("utf-8 encoding of a non-ASCII symbolic character")
            out.append(SymByte(z3.Int2BV(ch.t, 8)))
    return out
