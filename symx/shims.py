"""symx.shims -- replacements for names of the repo modules that resolve to C code.

Every shim falls through to the real builtin/library when its arguments are concrete, so the
instrumented modules behave exactly like the original ones on concrete inputs (validated by running
the repository's own unit tests through them, see symx/validate.py).
"""
from __future__ import annotations

import builtins
import math as _math
import time as _time
import uuid as _uuid

import z3

from . import core
from .values import SymReal, SymInt, SymBool, _mk_real, to_real, fresh_real

# symbolic mode: math.pi is the z3 constant PI with 3.14159 < PI < 3.1416  (DESIGN 4.6)
SYMBOLIC_PI = True
PI = z3.Real("PI")
GLOBAL_AXIOMS = [z3.And(PI > z3.RealVal("314159/100000"), PI < z3.RealVal("31416/10000"))]

_real_float, _real_int, _real_str, _real_len = builtins.float, builtins.int, builtins.str, builtins.len


def _symstr():
    from . import strings
    return strings


def sx_float(x=0.0):
    if isinstance(x, SymReal):
        return x
    if isinstance(x, SymInt):
        return SymReal(z3.ToReal(x.t))
    if isinstance(x, SymBool):
        return SymReal(to_real(x))
    if isinstance(x, _real_str) and core.active():
        kt = core.cur().key_table
        if kt:
            v = kt.get(x)
            if v is not None:
                return v
            if x[:1] in "+-" and x[1:] in kt:
                return -kt[x[1:]] if x[0] == "-" else kt[x[1:]]
            if any(k in x for k in kt):
                raise core.Unsupported("number text %r contains a key literal in an unregistered spelling" % x)
    if type(x).__name__ == "SymStr":
        return _symstr().symstr_to_real(x)
    return _real_float(x)


def sx_int(x=0, *a):
    if isinstance(x, SymInt):
        ctx = core.cur()
        lo, hi = ctx.notes.get("int_bounds", (0, 8))
        return ctx.concretize_int(x.t, lo, hi, "int()")
    if isinstance(x, SymReal):
        raise core.Unsupported("int() of a symbolic real")
    if type(x).__name__ == "SymStr":
        return _symstr().symstr_to_int(x)
    return _real_int(x, *a)


class _StrMeta(type):
    def __instancecheck__(cls, inst):
        return isinstance(inst, _real_str) or type(inst).__name__ == "SymStr"


class sx_str(metaclass=_StrMeta):
    """Stand-in for the name `str` inside repo modules (call + isinstance)."""

    def __new__(cls, x="", *a):
        if type(x).__name__ == "SymStr":
            return x
        if isinstance(x, SymInt):
            return _symstr().symint_to_str(x)
        if type(x).__name__ == "SymByte":
            return _symstr().bounded_int_to_str(x.as_int(), 0, 255)
        return _real_str(x, *a)


def sx_len(x):
    if type(x).__name__ == "SymStr":
        return x.length()
    return _real_len(x)


class _Math(object):
    """Stand-in for the `math` module inside repo modules."""

    def __getattr__(self, name):
        return getattr(_math, name)

    @property
    def pi(self):
        return SymReal(PI) if SYMBOLIC_PI else _math.pi

    @staticmethod
    def _conc(*xs):
        return all(isinstance(x, (int, float)) for x in xs)

    def hypot(self, a, b):
        if self._conc(a, b):
            return _math.hypot(a, b)
        from .values import SymHypot
        ta, tb = to_real(a), to_real(b)
        return SymHypot(z3.simplify(ta * ta + tb * tb), None, (ta, tb))

    def sqrt(self, a):
        if self._conc(a):
            return _math.sqrt(a)
        ctx = core.cur()
        ta = to_real(a)
        if ctx.decide(ta < 0):
            raise ValueError("math domain error")
        ctx.nonlinear = True
        s = z3.Real(ctx.fresh_name("sqrt"))
        ctx.assume_expr(z3.And(s >= 0, s * s == ta))
        return SymReal(s)

    def ceil(self, a):
        if self._conc(a):
            return _math.ceil(a)
        if isinstance(a, SymInt):
            return a
        return a.__ceil__()

    def floor(self, a):
        if self._conc(a):
            return _math.floor(a)
        if isinstance(a, SymInt):
            return a
        return a.__floor__()

    def atan2(self, y, x):
        if self._conc(y, x) and not SYMBOLIC_PI:
            return _math.atan2(y, x)
        from . import trig
        return trig.atan2(y, x)

    def cos(self, a):
        if self._conc(a) and not SYMBOLIC_PI:
            return _math.cos(a)
        from . import trig
        return trig.cos(a)

    def sin(self, a):
        if self._conc(a) and not SYMBOLIC_PI:
            return _math.sin(a)
        from . import trig
        return trig.sin(a)


math_shim = _Math()


class _Time(object):
    def __getattr__(self, name):
        return getattr(_time, name)

    def time(self):
        """The clock is an environment stub: an arbitrary non-negative, non-decreasing instant per call.  The instants
        are registered inputs (`clock!1`, `clock!2`, ...) so that a counterexample that depends on them is replayed
        with the same clock (ConcWorld feeds them to `time.time` for callers inside the repository)."""
        if core.active():
            ctx = core.cur()
            name = ctx.fresh_name("clock")
            v = fresh_real(name, register=True)
            n = int(name.split("!")[1])
            lower = z3.Real("clock!%d" % (n - 1)) if n > 1 else z3.RealVal(0)
            # a fresh variable bounded from below keeps the path condition satisfiable: no feasibility query is spent
            ctx.pc.append(to_real(v) >= lower)
            ctx.model = None
            ctx.model_at = -1
            return v
        return _time.time()


time_shim = _Time()

uuid_hook = [None]


class _Uuid(object):
    def __getattr__(self, name):
        return getattr(_uuid, name)

    def uuid4(self):
        if uuid_hook[0] is not None:
            return uuid_hook[0]()
        return _uuid.uuid4()


uuid_shim = _Uuid()
