"""symx.alg -- a tiny algebra so that oracles are written once and run in two modes.

symbolic mode : operands are SymReal/SymBool proxies (or concrete numbers) -> z3 terms, no forking
concrete mode : operands are Python floats/bools (replay against the pristine code), equality with
                a relative tolerance so that IEEE rounding of the *implementation* is not an alarm
"""
from __future__ import annotations

from fractions import Fraction

TOL = 1e-7

try:
    import z3
    from .values import SymReal, SymBool, SymInt, to_real, zb, _mk_bool, _mk_real
except ImportError:  # pragma: no cover - replay interpreter without z3
    z3 = None
    SymReal = SymBool = SymInt = ()


def _sym(*xs):
    return any(isinstance(x, (SymReal, SymBool, SymInt)) for x in xs)


def ite(c, a, b):
    if isinstance(c, SymBool):
        if isinstance(a, (bool, SymBool)) and isinstance(b, (bool, SymBool)):
            return _mk_bool(z3.If(c.t, zb(a), zb(b)))
        return _mk_real(z3.If(c.t, to_real(a), to_real(b)))
    return a if c else b


def and_(*cs):
    if _sym(*cs):
        return _mk_bool(z3.And(*[zb(c) for c in cs]))
    return all(cs)


def or_(*cs):
    if _sym(*cs):
        return _mk_bool(z3.Or(*[zb(c) for c in cs]))
    return any(cs)


def not_(c):
    if isinstance(c, SymBool):
        return _mk_bool(z3.Not(c.t))
    return not c


def implies(a, b):
    return or_(not_(a), b)


def iff(a, b):
    if _sym(a, b):
        return _mk_bool(zb(a) == zb(b))
    return bool(a) == bool(b)


def eq(a, b):
    """Numeric equality (tolerant in concrete mode)."""
    if a is None or b is None:
        return a is None and b is None
    if _sym(a, b):
        return a == b
    a, b = float(a), float(b)
    return abs(a - b) <= TOL * max(1.0, abs(a), abs(b))


def ne(a, b):
    return not_(eq(a, b))


def le(a, b):
    """a <= b (tolerant in concrete mode: violations need a margin)."""
    if _sym(a, b):
        return a <= b
    return float(a) <= float(b) + TOL * max(1.0, abs(float(a)), abs(float(b)))


def ge(a, b):
    return le(b, a)


def lt(a, b):
    if _sym(a, b):
        return a < b
    return float(a) < float(b)


def gt(a, b):
    return lt(b, a)


def max_(a, b):
    return ite(a <= b, b, a)


def min_(a, b):
    return ite(a <= b, a, b)


def abs_(a):
    return ite(a >= 0, a, -a)


def num(v):
    """Exact constant: Fraction in symbolic mode stays exact; float in concrete mode."""
    return v
