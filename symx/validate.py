"""symx.validate -- concrete validation of the library models against the real C implementations.

1. regex model vs. `re`: every string of length <= L over one representative per character class, plus the
   string literals found in the repository's parser tests; spans of all groups must agree.
2. float-format contract vs. CPython: repr/str/format('') use exponent notation iff v != 0 and
   (|v| < 1e-4 or |v| >= 1e16); '.Nf' never; checked on threshold neighbours and seeded values.
Returns (number of comparisons, list of disagreements).
"""
from __future__ import annotations

import ast
import itertools
import math
import os
import random
import re

REPO = os.environ.get("VERIF_REPO", "/repo")
REPS = [" ", "G", "g", "N", "T", "M", "X", "e", "0", "7", ".", "-", "+", "*", ";", "\\", "\r", "\n", "@", "é"]


def _test_literals():
    out = set()
    tdir = os.path.join(REPO, "test")
    for fn in ("test_GcodeParser.py", "test_GcodeParser_parse.py", "test_StreamProcessor.py"):
        p = os.path.join(tdir, fn)
        if not os.path.exists(p):
            continue
        try:
            tree = ast.parse(open(p, encoding="utf-8").read())
        except SyntaxError:
            continue
        for node in ast.walk(tree):
            if isinstance(node, ast.Constant) and isinstance(node.value, str) and 0 < len(node.value) <= 60:
                out.add(node.value)
    return sorted(out)


def validate_regex(patterns, maxlen=3):
    from .regex_model import RegexModel
    from .strings import SymStr
    n = 0
    bad = []
    models = [(name, RegexModel(p), re.compile(p)) for name, p in patterns]
    for _, m, _r in models:
        m.force_model = True
    corpus = list(_test_literals())
    for L in range(0, maxlen + 1):
        for tup in itertools.product(REPS, repeat=L):
            corpus.append("".join(tup))
    for s in corpus:
        ss = SymStr.of(s)
        for name, m, r in models:
            for pos in ((0,) if len(s) < 2 else (0, 1)):
                got = m.match(ss, pos)
                exp = r.match(s, pos)
                n += 1
                if (got is None) != (exp is None):
                    bad.append((name, s, pos, "match/no-match"))
                    continue
                if got is None:
                    continue
                for g in range(0, r.groups + 1):
                    if got.span(g) != exp.span(g):
                        bad.append((name, s, pos, "group %d: model %r real %r" % (g, got.span(g), exp.span(g))))
                        break
        if len(bad) > 20:
            break
    return n, bad


def validate_float_format(seed=0, count=10000):
    rnd = random.Random(seed)
    n = 0
    bad = []

    def contract_exp(v):
        return v != 0 and (abs(v) < 1e-4 or abs(v) >= 1e16)
    vals = [0.0, -0.0, 1e-4, 1e16, 5e-324, 1e-5, 123456789.0, 1e15, 9999999999999998.0, 0.1 + 0.2 - 0.3]
    for base in (1e-4, 1e16):
        v = base
        for _ in range(5):
            vals.append(math.nextafter(v, 0.0))
            vals.append(math.nextafter(v, math.inf))
            v = math.nextafter(v, 0.0)
    for _ in range(count):
        vals.append(rnd.uniform(-1, 1) * 10 ** rnd.randint(-30, 30))
    for v in vals:
        for neg in (v, -v):
            for text in (repr(neg), str(neg), format(neg, ""), "{}".format(neg)):
                n += 1
                if (("e" in text) or ("E" in text)) != contract_exp(neg):
                    bad.append(("repr", neg, text))
                if float(text) != neg:
                    bad.append(("roundtrip", neg, text))
            t2 = "{:.15f}".format(neg)
            n += 1
            if "e" in t2 or "E" in t2:
                bad.append(("fixed", neg, t2))
    return n, bad
