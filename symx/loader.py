"""symx.loader -- serve octoprint_excluderegion.* from /repo's working tree, instrumented.

The source is read from the current working tree on every run (SHA-256 recorded for the evidence),
parsed, and changed by purely syntactic rewrites:

  * `import math|time|uuid`    ->  bound to the shim objects of symx.shims
  * `X.join(Y)`                ->  `_sx_join(X, Y)`   (delegates to str.join when nothing is symbolic)
  * `X.encode(...)`            ->  `_sx_encode(X, ...)` (ditto)
  * `bytearray(X)`             ->  `_sx_bytearray(X)`

and the module globals `float`, `int`, `str`, `len` are pre-seeded with shims.  Nothing else:
control flow, arithmetic, attribute access, getattr dispatch, generators, OrderedDict run natively.
"""
from __future__ import annotations

import ast
import hashlib
import importlib.abc
import importlib.machinery
import importlib.util
import os
import sys

from . import shims

PKG = "octoprint_excluderegion"
REPO = os.environ.get("VERIF_REPO", "/repo")

SOURCE_SHA = {}
ENCODED_FILES = {}


def _sx_join(sep, items):
    items = list(items)
    if type(sep).__name__ == "SymStr" or any(type(i).__name__ == "SymStr" for i in items):
        from . import strings
        return strings.join(sep, items)
    return sep.join(items)


def _sx_encode(x, *a, **k):
    if type(x).__name__ == "SymStr":
        return x  # bytes of an ASCII-range symbolic string: handled by _sx_bytearray
    return x.encode(*a, **k)


def _sx_bytearray(x=b"", *a):
    if type(x).__name__ == "SymStr":
        from . import strings
        return strings.code_points(x)
    return bytearray(x, *a)


class _Rewrite(ast.NodeTransformer):
    def visit_Import(self, node):
        keep = []
        out = []
        for al in node.names:
            if al.name in ("math", "time", "uuid") and al.asname is None:
                out.append(ast.Assign(
                    targets=[ast.Name(id=al.name, ctx=ast.Store())],
                    value=ast.Name(id="_sx_%s" % al.name, ctx=ast.Load())))
            else:
                keep.append(al)
        res = []
        if keep:
            res.append(ast.Import(names=keep))
        res.extend(out)
        return [ast.copy_location(n, node) for n in res]

    def visit_Call(self, node):
        self.generic_visit(node)
        f = node.func
        if isinstance(f, ast.Attribute) and f.attr == "join" and len(node.args) == 1 and not node.keywords:
            return ast.copy_location(ast.Call(
                func=ast.Name(id="_sx_join", ctx=ast.Load()), args=[f.value, node.args[0]], keywords=[]), node)
        if isinstance(f, ast.Attribute) and f.attr == "encode":
            return ast.copy_location(ast.Call(
                func=ast.Name(id="_sx_encode", ctx=ast.Load()), args=[f.value] + node.args,
                keywords=node.keywords), node)
        if isinstance(f, ast.Name) and f.id == "bytearray":
            return ast.copy_location(ast.Call(
                func=ast.Name(id="_sx_bytearray", ctx=ast.Load()), args=node.args, keywords=node.keywords), node)
        return node


class _Loader(importlib.abc.Loader):
    def __init__(self, fullname, path, is_pkg):
        self.fullname, self.path, self.is_pkg = fullname, path, is_pkg

    def create_module(self, spec):
        return None

    def exec_module(self, module):
        with open(self.path, "rb") as fh:
            raw = fh.read()
        SOURCE_SHA[os.path.relpath(self.path, REPO)] = hashlib.sha256(raw).hexdigest()
        tree = ast.parse(raw, filename=self.path)
        tree = _Rewrite().visit(tree)
        ast.fix_missing_locations(tree)
        code = compile(tree, self.path, "exec", dont_inherit=True)
        g = module.__dict__
        g["float"] = shims.sx_float
        g["int"] = shims.sx_int
        g["str"] = shims.sx_str
        g["len"] = shims.sx_len
        g["_sx_math"] = shims.math_shim
        g["_sx_time"] = shims.time_shim
        g["_sx_uuid"] = shims.uuid_shim
        g["_sx_join"] = _sx_join
        g["_sx_encode"] = _sx_encode
        g["_sx_bytearray"] = _sx_bytearray
        exec(code, g)


class _Finder(importlib.abc.MetaPathFinder):
    def find_spec(self, fullname, path=None, target=None):
        if fullname != PKG and not fullname.startswith(PKG + "."):
            return None
        rel = fullname.split(".")
        base = os.path.join(REPO, *rel)
        if os.path.isdir(base) and os.path.isfile(os.path.join(base, "__init__.py")):
            p = os.path.join(base, "__init__.py")
            spec = importlib.machinery.ModuleSpec(fullname, _Loader(fullname, p, True), origin=p, is_package=True)
            spec.submodule_search_locations = [base]
            return spec
        p = base + ".py"
        if os.path.isfile(p):
            return importlib.machinery.ModuleSpec(fullname, _Loader(fullname, p, False), origin=p)
        return None


_installed = [False]


def install(symbolic_pi=True):
    """Install the finder (idempotent) and drop already imported repo modules."""
    shims.SYMBOLIC_PI = symbolic_pi
    if not _installed[0]:
        sys.dont_write_bytecode = True
        sys.meta_path.insert(0, _Finder())
        _installed[0] = True
    for name in [n for n in sys.modules if n == PKG or n.startswith(PKG + ".")]:
        del sys.modules[name]


def mod(name):
    """The instrumented module object `octoprint_excluderegion.<name>` (not the re-exported class)."""
    full = PKG + "." + name if name else PKG
    importlib.import_module(full)
    return sys.modules[full]


def source_sha():
    return dict(sorted(SOURCE_SHA.items()))
