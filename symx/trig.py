"""symx.trig -- solver-level contracts for atan2 / cos / sin (DESIGN 4.6).

No quantifiers and no uninterpreted functions reach z3; every angle that the code forms is a z3 Real term and
every (cos, sin) pair is a pair of fresh reals constrained by true facts about real sine/cosine:

  atan2(y, x) = th :  x = y = 0  ->  th = 0
                      otherwise  ->  fresh c, s, rho:  c*c + s*s = 1, rho > 0, x = rho*c, y = rho*s,
                                     -PI < th <= PI,  sign(th) = sign(s),  th = 0 <-> (s = 0 and c > 0),
                                     th = PI <-> (s = 0 and c < 0);  (c, s) is registered as (cos th, sin th)
  cos(a), sin(a)      :  the pair registered for the *term* a; a term of the form  b + d  whose parts are
                         registered gets the angle-addition pair; otherwise a fresh pair with c*c + s*s = 1.
"""
from __future__ import annotations

import z3

from . import core
from .shims import PI
from .values import SymReal, to_real


# LIGHT contracts (used where only totality matters, C09): linear over-approximations of the same functions.
# Every fact below is true of the real functions, so a property proved under them holds for the real ones;
# a counterexample is only reported after it replays on the real code.
LIGHT = [False]


class _Reg(object):
    def __init__(self):
        self.pairs = {}      # term id -> (term, c, s)
        self.order = []
        self.rho = {}        # atan2 result term id -> its rho
        self.contract = {}   # atan2 result term id -> the contract conjunct as it stands in the path condition
        self.calls = []      # ("atan2", y, x, theta) / ("cos"|"sin", angle term, value term) in call order


def _reg():
    ctx = core.cur()
    if ctx.trig is None:
        ctx.trig = _Reg()
    return ctx.trig


def register(term, c, s):
    r = _reg()
    r.pairs[term.get_id()] = (term, c, s)
    r.order.append(term)


def lookup(term):
    r = _reg()
    e = r.pairs.get(term.get_id())
    return None if e is None else (e[1], e[2])


def atan2(y, x):
    ctx = core.cur()
    if not LIGHT[0]:
        ctx.nonlinear = True
    ty, tx = to_real(y), to_real(x)
    th = z3.Real(ctx.fresh_name("atan2"))
    _reg().calls.append(("atan2", ty, tx, th))
    if LIGHT[0]:
        ctx.assume_expr(z3.And(th > -PI, th <= PI,
                               (th == 0) == z3.And(ty == 0, tx >= 0),
                               (th == PI) == z3.And(ty == 0, tx < 0),
                               (th > 0) == z3.Or(ty > 0, z3.And(ty == 0, tx < 0)),
                               (th < 0) == (ty < 0)))
        return SymReal(th)
    if ctx.decide(z3.And(tx == 0, ty == 0)):
        ctx.assume_expr(th == 0)
        register(th, z3.RealVal(1), z3.RealVal(0))
        return SymReal(th)
    c = z3.Real(ctx.fresh_name("cos"))
    s = z3.Real(ctx.fresh_name("sin"))
    rho = z3.Real(ctx.fresh_name("rho"))
    contract = z3.And(
        c * c + s * s == 1, rho > 0, tx == rho * c, ty == rho * s,
        th > -PI, th <= PI,
        (th > 0) == z3.Or(s > 0, z3.And(s == 0, c < 0)),
        (th < 0) == (s < 0),
        (th == PI) == z3.And(s == 0, c < 0))
    ctx.assume_expr(contract)
    register(th, c, s)
    _reg().rho[th.get_id()] = rho
    _reg().contract[th.get_id()] = ctx.pc[-1]
    return SymReal(th)


def _pair(a):
    ctx = core.cur()
    if LIGHT[0]:
        c = z3.Real(ctx.fresh_name("cos"))
        s = z3.Real(ctx.fresh_name("sin"))
        ctx.assume_expr(z3.And(c >= -1, c <= 1, s >= -1, s <= 1))
        return c, s
    ctx.nonlinear = True
    t = z3.simplify(to_real(a))
    hit = lookup(t)
    if hit is not None:
        return hit
    # angle addition: t = b + d with both parts registered
    if z3.is_add(t) and t.num_args() == 2:
        b, d = t.arg(0), t.arg(1)
        pb, pd = lookup(b), lookup(d)
        if pb is not None and pd is not None:
            c = z3.Real(ctx.fresh_name("cos"))
            s = z3.Real(ctx.fresh_name("sin"))
            ctx.assume_expr(z3.And(c == pb[0] * pd[0] - pb[1] * pd[1], s == pb[1] * pd[0] + pb[0] * pd[1]))
            register(t, c, s)
            return c, s
    c = z3.Real(ctx.fresh_name("cos"))
    s = z3.Real(ctx.fresh_name("sin"))
    ctx.assume_expr(c * c + s * s == 1)
    register(t, c, s)
    return c, s


def cos(a):
    c = _pair(a)[0]
    _reg().calls.append(("cos", z3.simplify(to_real(a)), c))
    return SymReal(c)


def sin(a):
    s = _pair(a)[1]
    _reg().calls.append(("sin", z3.simplify(to_real(a)), s))
    return SymReal(s)


def chord_fact(a, b):
    """True fact about real sine/cosine for two registered angle terms: chord <= arc."""
    pa, pb = lookup(z3.simplify(a)), lookup(z3.simplify(b))
    if pa is None or pb is None:
        return None
    return (pa[0] - pb[0]) * (pa[0] - pb[0]) + (pa[1] - pb[1]) * (pa[1] - pb[1]) <= (a - b) * (a - b)
