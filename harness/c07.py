"""C07 -- commands synthesised by the filter are well-formed plain-decimal G-code.

Scheme BSR over one episode with optional ingredients (units, retraction before/inside, merged deferred
code, Z change, owed recovery afterwards).  Every command the filter emits that is not the unchanged original
is read with the independent RS274 reader and must be: one G/M code, distinct letters, every letter with a
number; every number that was produced by str()/format() of a float must not be in CPython's
exponent-notation range (repr contract: v != 0 and (|v| < 1e-4 or |v| >= 1e16)) unless a fixed-point spec
was used; and the values read back must be the intended ones (file's E / X / Y / Z in the current units,
retraction length, merged parameter values).
"""
import re

from symx import alg
from harness.base import Scenario
from harness import pipeline as pl
from oracles import rs274

PROPERTY = "C07"

_NUM = re.compile(r"^[-+]?(\d+\.?\d*|\.\d+)$")


def check_wellformed(w, pipe, text, label_prefix, desc):
    """Well-formedness of one synthesised command; returns the parsed command (or None)."""
    c = rs274.read(text)
    ok = c.code is not None and c.malformed is None
    letters = [l for l, _ in c.words]
    ok = ok and len(set(letters)) == len(letters) and all(v is not None for _, v in c.words)
    if not w.check(ok, label_prefix + "one-code-distinct-letters-with-numbers", "%s ; offending %r (%s)" % (
            desc, text, c.malformed)):
        return None
    conds = []
    for l, vt in c.words:
        if w.symbolic and vt.startswith(rs274.MARK):
            from symx.values import spec_kind, exp_range, _mk_bool
            tid = int(vt.strip(rs274.MARK))
            term, spec = w.ctx.fmt_table[tid]
            kind = spec_kind(spec)
            if kind == "repr":
                conds.append(alg.not_(_mk_bool(exp_range(term))))
            elif kind == "other":
                conds.append(False)
        elif not w.symbolic:
            conds.append(bool(_NUM.match(vt)))
    w.check(alg.and_(*conds) if conds else True, label_prefix + "numbers-in-plain-decimal",
            "%s ; offending %r" % (desc, text))
    return c


def val(w, c, letter):
    t = c.get(letter)
    return None if t is None else w.resolve_number(t)


def scen(w, variant="exit"):
    pipe = pl.Pipe(w, False, extended={"M204": "merge", "M205": "merge"}, fmt_fork=True)
    pipe.add_region(pl.fresh_region(w, "rect", "r0"))
    pipe.prologue()
    V, P = pipe.V, pipe.P
    if w.flag("inches"):
        pipe.feed("G20")
    a = w.real("a")
    w.assume(a > 0)
    retracted = False

    def step(text, inside=None, role=""):
        rec = pipe.begin(text)
        if inside is True:
            w.assume(rec.dest_inside)
        elif inside is False:
            w.assume(alg.not_(rec.dest_inside))
        e_before = rec.v_before["e"]
        rec = pipe.finish(catch=False)
        desc = "[%s] %r -> %r (program %r)" % (role, text, rec.emitted, pipe.program)
        synth = [e for e in rec.emitted if e != text]
        cmds = []
        for e in synth:
            w.cover("synthesised-command")
            cmds.append(check_wellformed(w, pipe, e, "", desc))
        return rec, cmds, desc, e_before

    if variant in ("exit", "retract") and w.flag("retract-before"):
        e = w.real("e_ret0")
        w.assume(alg.eq(e * V.u, V.e - a))
        pipe.begin("G1 E" + w.key(e))
        pipe.finish(catch=False)
        retracted = True
    # entering move
    step("G1 X%s Y%s" % (w.key(w.real("in_X")), w.key(w.real("in_Y"))), inside=True, role="enter")
    if variant == "retract" or (variant == "exit" and not retracted and w.flag("retract-inside")):
        if retracted:
            pl.skip(w, "already retracted")
        e = w.real("e_ret1")
        text = "G1 E" + w.key(e)
        w.assume(alg.eq(e * V.u, V.e - a))
        rec = pipe.begin(text)
        e_before = rec.v_before["e"]
        rec = pipe.finish(catch=False)
        desc = "[retract inside] %r -> %r" % (text, rec.emitted)
        cmds = [check_wellformed(w, pipe, c, "", desc) for c in rec.emitted if c != text]
        w.cover("retraction-synthesised")
        if len(cmds) == 2 and all(cmds) and cmds[0].code == "G92" and cmds[1].code == "G1":
            ea, eb = val(w, cmds[0], "E"), val(w, cmds[1], "E")
            ok = alg.and_(alg.eq(ea * V.u, e_before), alg.eq(eb * V.u, V.e))
            w.check(ok, "retraction-pair-reads-back-intended-values", desc)
        else:
            w.check(False, "retraction-pair-reads-back-intended-values", desc + " (unexpected shape)")
        retracted = True
    merged = None
    if variant == "merge":
        p1, t1, p2 = w.real("m_P1"), w.real("m_T1"), w.real("m_P2")
        step("M204 P%s T%s" % (w.key(p1), w.key(t1)), role="deferred")
        step("M204 P%s" % w.key(p2), role="deferred")
        merged = {"P": p2, "T": t1}
    if variant == "exit" and w.flag("z-change-inside"):
        step("G1 Z%s" % w.key(w.real("in_Z")), role="z inside")
    # leaving move
    rec, cmds, desc, _ = step("G1 X%s Y%s" % (w.key(w.real("out_X")), w.key(w.real("out_Y"))), inside=False,
                              role="leave")
    w.cover("exit-sequence")
    if all(cmds):
        by_code = {}
        for c in cmds:
            by_code.setdefault(c.code, []).append(c)
        g92 = by_code.get("G92", [])
        ok = len(g92) == 1 and g92[0].has("E")
        conds = [ok]
        if ok:
            conds.append(alg.eq(val(w, g92[0], "E") * V.u, V.e))
        for c in by_code.get("G0", []):
            for ax in "XYZ":
                if c.has(ax):
                    conds.append(alg.eq(val(w, c, ax) * V.u, {"X": V.x, "Y": V.y, "Z": V.z}[ax]))
        w.check(alg.and_(*conds), "exit-sequence-reads-back-file-position", desc)
        if merged is not None:
            m = by_code.get("M204", [])
            okm = len(m) == 1 and sorted(m[0].letters()) == sorted(merged)
            condm = [okm]
            if okm:
                condm += [alg.eq(val(w, m[0], l), merged[l]) for l in merged]
            w.check(alg.and_(*condm), "merged-command-reads-back-latest-values", desc)
            w.cover("merged-command")


CORPUS_PROGRAMS = [
    # (region rectangle, program) -- fixed concrete programs whose interesting values only arise through IEEE
    # round-off or are far outside the usual range; executed with real floats on the pristine code (replay
    # interpreter), NOT decided by the solver (real arithmetic has no round-off), see DESIGN 5.1 / C07
    ((40, 40, 60, 60), ["G28", "G1 X10 Y10 Z0.3 E1 F3000", "G1 X50 Y50", "G91", "G1 Z-0.2", "G1 Z-0.1", "G90", "G1 X80 Y80"]),
    ((40, -10, 60, 10), ["G28", "G1 X10 Y0.3 Z1 E1 F3000", "G91", "G1 Y-0.2", "G1 Y-0.1", "G90", "G1 X50", "G1 X80"]),
    ((40, 40, 60, 60), ["G28", "G1 X10 Y10 Z1 E1 F3000", "G1 X50 Y50", "G1 X20000000000000000 Y5"]),
    ((40, 40, 60, 60), ["G28", "G1 X10 Y10 Z1 E0.00003 F0.00002", "G1 X50 Y50", "G1 E0.00001", "M204 P0.00001 T0", "G1 X80 Y80.00005"]),
    ((40, 40, 60, 60), ["G28", "G20", "G1 X0.3 Y0.3 Z0.01 E0.001 F60", "G1 X2 Y2", "G1 E0.0005", "G1 X3 Y3 Z0.02"]),
]


def scen_corpus(w, index=0):
    """Concrete corpus (see CORPUS_PROGRAMS): every command the filter synthesises must be well-formed plain decimal."""
    rect, program = CORPUS_PROGRAMS[index]
    pipe = pl.Pipe(w, False, extended={"M204": "merge", "M205": "merge"}, fmt_fork=True)
    pipe.add_region(pl.RegionSpec("rect", tuple(float(v) for v in rect), "r0"))
    for text in program:
        rec = pipe.feed(text, catch=False)
        for e in rec.emitted:
            if e != text:
                check_wellformed(w, pipe, e, "", "corpus program %d %r -> %r" % (index, program, rec.emitted))


CORPUS = [("corpus", {"index": i}, {}) for i in range(len(CORPUS_PROGRAMS))]


def validate():
    from symx import validate as v
    return v.validate_float_format()


SCENARIOS = {"exit": scen, "retract": scen, "merge": scen, "corpus": scen_corpus}

META = {
    "assumptions": [
        "floats modelled as reals; CPython's repr/str/format contract for floats: exponent notation iff v != 0 and "
        "(|v| < 1e-4 or |v| >= 1e16) for repr-style conversions, never for [.N]f (validated concretely in symx/validate.py)",
        "absolute positioning and extrusion (the relative-mode defects are separate known findings of C01/C03)",
        "one rectangular region; numbers through numeric-key literals",
    ],
    "outside_claim": ["values that become tiny only through IEEE round-off (0.1+0.2-0.3): they do not exist in real "
                      "arithmetic; inf/nan"],
}


def plan(tier):
    return [
        Scenario("exit", scen, params={"variant": "exit"}, cover=["synthesised-command", "exit-sequence"],
                 bounds={"program": "prologue, [G20], [retract], enter, [retract inside], [Z inside], leave"}),
        Scenario("retract", scen, params={"variant": "retract"}, cover=["retraction-synthesised", "exit-sequence"],
                 bounds={"program": "prologue, [G20], enter, retract inside, leave"}),
        Scenario("merge", scen, params={"variant": "merge"}, cover=["merged-command", "exit-sequence"],
                 bounds={"program": "prologue, [G20], enter, M204 P T, M204 P, leave"}),
    ]
