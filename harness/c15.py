"""C15 -- a print that ends while excluding is cleaned up exactly once.

Scheme BSR through the real plugin: PRINT_STARTED, prologue, optionally an entering move and a deferred code,
then a sequence of script-hook invocations and print-end events.  Oracle: lifecycle machine (active until
done/failed/cancelling/cancelled/error) and the file-level episode flag.
  * first ("gcode","afterPrintDone") call while active and an episode is open -> (prefix, None) with
    prefix = deferred flush ++ exit script ++ re-synchronisation; executing it re-synchronises the printer
    (X, Y, Z, E register) and the filter is not excluding afterwards;
  * every other call (no episode, no active print, other type/name, repeated) -> None and changes nothing.
"""
from symx import alg
from harness.base import Scenario
from harness import pipeline as pl, plugin_util as pu
from oracles import rs274

PROPERTY = "C15"

HOOKS = [("gcode", "afterPrintDone"), ("gcode", "beforePrintStarted"), ("other", "afterPrintDone"),
         ("gcode", "afterPrintPaused"), ("gcode", "afterPrintCancelled")]
END_EVENTS = ["PRINT_DONE", "PRINT_FAILED", "PRINT_CANCELLING", "PRINT_CANCELLED", "ERROR"]
OTHER_EVENTS = ["PRINT_PAUSED", "PRINT_RESUMED"]
EXIT_SCRIPT = "M117 leaving\n"
EXIT_LINES = ["M117 leaving"]


def scen(w, steps=2):
    plugin = pu.make_plugin(w, exit_=EXIT_SCRIPT, extended=[{"gcode": "M204", "mode": "merge", "description": ""}])
    Events = pu.events(w)
    pu.fire(plugin, "PRINT_STARTED")
    pipe = pl.Pipe(w, plugin=plugin)
    pipe.add_region(pl.fresh_region(w, "rect", "r0"))
    pipe.prologue()
    V, P = pipe.V, pipe.P
    active = True
    episode = False
    deferred = None
    if w.flag("earlier-episode"):
        rec = pipe.begin("G1 X%s Y%s" % (w.key(w.real("e1_X")), w.key(w.real("e1_Y"))))
        w.assume(rec.dest_inside)
        pipe.finish(catch=False)
        rec = pipe.begin("G1 X%s Y%s" % (w.key(w.real("e2_X")), w.key(w.real("e2_Y"))))
        w.assume(alg.not_(rec.dest_inside))
        rec = pipe.finish(catch=False)
        w.check(EXIT_LINES[0] in rec.emitted, "earlier-episode-exit-script", "%r" % (rec.emitted,))
        w.cover("earlier-episode")
    if w.flag("enter"):
        rec = pipe.begin("G1 X%s Y%s" % (w.key(w.real("in_X")), w.key(w.real("in_Y"))))
        w.assume(rec.dest_inside)
        pipe.finish(catch=False)
        episode = True
        if w.flag("z-inside"):
            pipe.feed("G1 Z%s" % w.key(w.real("in_Z")), catch=False)
        if w.flag("deferred"):
            deferred = w.real("m_P")
            pipe.feed("M204 P%s" % w.key(deferred), catch=False)
    comm = pu.CommStub()
    n_items = len(HOOKS) + len(END_EVENTS) + len(OTHER_EVENTS)
    for k in range(steps):
        sel = w.choose(n_items, "step")
        if sel >= len(HOOKS):
            name = (END_EVENTS + OTHER_EVENTS)[sel - len(HOOKS)]
            w.cover("event-" + name)
            pipe.program.append("<event %s>" % name)
            pu.fire(plugin, name)
            if name in END_EVENTS:
                active = False
            continue
        stype, sname = HOOKS[sel]
        w.cover("hook-%s-%s" % (stype, sname))
        pipe.program.append("<script hook %s/%s>" % (stype, sname))
        w.note("program", list(pipe.program))
        excl_before = plugin.state.excluding
        try:
            res = plugin.handleScriptHook(comm, stype, sname)
        except Exception as ex:
            w.fail("script-hook-raises", "%r" % (ex,))
            return
        desc = "program %r -> %r" % (pipe.program, res)
        expect_cleanup = (stype, sname) == ("gcode", "afterPrintDone") and active and episode
        if not expect_cleanup:
            ok = res is None and plugin.state.excluding == excl_before
            if not w.check(ok, "other-invocations-contribute-nothing", desc):
                return
            continue
        w.cover("cleanup")
        shape_ok = isinstance(res, tuple) and len(res) == 2 and res[1] is None and isinstance(res[0], list)
        if not w.check(shape_ok, "cleanup-prefix-returned", desc):
            return
        prefix = list(res[0])
        nflush = 1 if deferred is not None else 0
        flush, script, resync = prefix[:nflush], prefix[nflush:nflush + 1], prefix[nflush + 1:]
        # the re-synchronisation is ONE episode's: one G92 E, one G0 with X/Y, at most one Z-only G0, nothing else
        # (stale re-positioning of an earlier episode would be a spurious travel move)
        rd = [rs274.read(c) for c in resync]
        n_g92 = sum(1 for c in rd if c.code == "G92" and c.letters() == ["E"])
        n_xy = sum(1 for c in rd if c.code in ("G0", "G1") and ("X" in c.letters() or "Y" in c.letters()))
        n_z = sum(1 for c in rd if c.code in ("G0", "G1") and "Z" in c.letters() and "X" not in c.letters()
                  and "Y" not in c.letters())
        conds = [script == EXIT_LINES, n_g92 == 1, n_xy == 1, n_z <= 1, len(rd) == n_g92 + n_xy + n_z]
        if deferred is not None:
            c = rs274.read(flush[0]) if flush else None
            okf = c is not None and c.code == "M204" and c.letters() == ["P"] and c.get("P") is not None
            conds.append(okf)
            if okf:
                conds.append(alg.eq(w.resolve_number(c.get("P")), deferred))
        for c in prefix:
            P.execute(c)
        conds += [alg.eq(P.x, V.x), alg.eq(P.y, V.y), alg.eq(P.z, V.z), alg.eq(P.e, V.e)]
        if not w.check(alg.and_(*conds), "prefix-is-flush-exit-script-resync", desc):
            return
        if not w.check(plugin.state.excluding is False, "not-excluding-after-cleanup", desc):
            return
        episode = False


SCENARIOS = {"hooks": scen}

META = {
    "assumptions": ["OctoPrint injections stubbed; one rectangular region; absolute positioning; exit script fixed; "
                    "one deferred (merge) code"],
    "outside_claim": ["more than `steps` hook invocations/events after the program", "relative positioning at the end of "
                      "the print (the relative-exit defect is a known finding of C01/C03/C14)"],
}


def plan(tier):
    steps = 3 if tier == "quick" else 4
    cov = ["cleanup", "earlier-episode"] + ["hook-%s-%s" % h for h in HOOKS] + ["event-" + e for e in END_EVENTS + OTHER_EVENTS]
    return [Scenario("hooks", scen, params={"steps": steps}, cover=cov,
                     bounds={"hook invocations / events after the program": steps})]
