"""C16 -- arc moves are sampled faithfully.

The real planArc / computeArcCenterOffsets are executed with start point, centre offsets (or radius), end point
as solver variables and the direction as a flag; trig by the contracts of symx/trig.py; the segment count is
concretised over 1..S (longer arcs are cut by the stated bound).  Obligations on the returned list:
  (angles)   the sweep is atan2(cross, dot) of the centre->start and centre->end vectors, normalised to the commanded
             direction (CCW: [0, 2pi), CW: [-2pi, 0); a full circle when start = end); sample k is taken at
             start-angle + k * sweep / n  (equal angles, commanded direction, commanded sweep);
  (circle)   every sample lies on the circle around start + (i, j) with radius |(i, j)|;
  (spacing)  n = ceil(|sweep| * radius), so consecutive samples (and start -> first sample) are at most one unit apart
             (chord <= arc instances);
  (end)      the last pair is literally the commanded end point; when that point lies on the circle, it is start-angle
             + sweep on the circle (angle addition, |(cross, dot)| = radius^2 by the Lagrange identity) and at most one
             unit away from the previous sample.
Radius form: the centre returned by computeArcCenterOffsets is at distance |R| from both end points.
"""
import math

from symx import alg
from harness.base import Scenario, NullLogger
from harness import pipeline as pl

PROPERTY = "C16"

KF_RADIUS = "radius_form_oblique_chord"


def setup(w, inch=False):
    state = w.env.ExcludeRegionState(NullLogger())
    h = w.env.GcodeHandlers(state, NullLogger())
    h.handleGcode("G28", "G28", None)
    if inch:
        h.handleGcode("G20", "G20", None)
    x, y = w.real("x0"), w.real("y0")
    h.handleGcode("G1 X%s Y%s" % (w.key(x), w.key(y)), "G1", None)
    return state, h, x, y


def scen_ij(w, S=3):
    inch = w.flag("inches")
    state, h, x, y = setup(w, inch)
    i, j, ex, ey = w.real("i"), w.real("j"), w.real("ex"), w.real("ey")
    cw = w.flag("clockwise")
    r2 = i * i + j * j
    w.assume(alg.and_(r2 >= (0.04 if not w.symbolic else __import__("fractions").Fraction(4, 100)), r2 <= 250000))
    same_point = alg.and_(alg.eq(ex, x), alg.eq(ey, y))
    if w.symbolic:
        from symx import trig, values
        import z3
        trig.LIGHT[0] = False
        values.HYPOT_LIGHT[0] = False
        w.ctx.notes["int_bounds"] = (0, S)
    try:
        pts = h.planArc(ex, ey, i, j, cw)
    except Exception as exc:
        w.fail("planArc-raises", "%r" % (exc,))
        return
    n = len(pts) // 2
    w.cover("segments-%d" % n)
    desc = "clockwise=%s segments=%d" % (cw, n)
    ok_end = alg.and_(alg.eq(pts[-2], ex), alg.eq(pts[-1], ey)) if len(pts) >= 2 and len(pts) % 2 == 0 else False
    if not w.check(ok_end, "ends-exactly-at-commanded-endpoint", desc):
        return
    cx, cy = x + i, y + j
    if w.symbolic:
        from symx.values import SymReal, to_real, _mk_bool
        from symx.shims import PI
        reg = w.ctx.trig
        calls = reg.calls if reg is not None else []
        at = [c for c in calls if c[0] == "atan2"]
        cs = [c for c in calls if c[0] == "cos"]
        sn = [c for c in calls if c[0] == "sin"]
        if len(at) != 2 or len(cs) != n - 1 or len(sn) != n - 1:
            w.fail("sampling-structure", "%s: %d atan2, %d cos, %d sin calls" % (desc, len(at), len(cs), len(sn)))
            return
        ti, tj, tx, ty, tex, tey = [to_real(v) for v in (i, j, x, y, ex, ey)]
        rtx, rty = tex - (tx + ti), tey - (ty + tj)
        cross = -ti * rty + tj * rtx
        dot = -ti * rtx - tj * rty
        raw, th0 = at[0][3], at[1][3]
        args_ok = z3.And(at[0][1] == cross, at[0][2] == dot, at[1][1] == -tj, at[1][2] == -ti)
        if not w.check(_mk_bool(args_ok), "sweep-is-angle-between-start-and-end-radii", desc):
            return
        two_pi = 2 * PI
        norm = z3.If(raw < 0, raw + two_pi, raw)
        if cw:
            sweep = norm - two_pi
        else:
            sweep = z3.If(z3.And(norm == 0, to_real(same_point) == 1), two_pi, norm)
        # property quantifier: sweeps in (0, 2pi]
        w.assume(_mk_bool(sweep != 0))
        inc = sweep / n
        conds = []
        for k in range(1, n):
            conds.append(cs[k - 1][1] == th0 + k * inc)
            conds.append(sn[k - 1][1] == th0 + k * inc)
        if not w.check(_mk_bool(z3.And(*conds)) if conds else True, "equal-angles-in-commanded-direction-over-sweep", desc):
            return
        dir_ok = z3.And(sweep <= 0, sweep >= -two_pi) if cw else z3.And(sweep >= 0, sweep <= two_pi)
        w.check(_mk_bool(dir_ok), "sweep-sign-matches-direction", desc)
        # radius and circle
        h2 = ti * ti + tj * tj
        rho = z3.Real("rho_c16")
        w.assume(_mk_bool(z3.And(rho >= 0, rho * rho == h2)))
        conds = []
        for k in range(1, n):
            px, py = to_real(pts[2 * (k - 1)]), to_real(pts[2 * (k - 1) + 1])
            conds.append(px == tx + ti + cs[k - 1][2] * rho)
            conds.append(py == ty + tj + sn[k - 1][2] * rho)
        if not w.check(_mk_bool(z3.And(*conds)) if conds else True, "samples-on-the-circle-at-the-sample-angles", desc):
            return
        # segment count: n = ceil(|sweep| * rho)  (n >= 1)
        L = z3.If(sweep >= 0, sweep, -sweep) * rho
        if not w.check(_mk_bool(z3.And(L <= n, z3.Or(n == 1, L > n - 1))), "segment-count-is-ceil-of-arc-length", desc):
            return
        # spacing, staged through lemmas: every lemma is discharged from an explicit, small set of hypotheses
        # that are already part of the path condition, then becomes a hypothesis itself
        if n >= 2:
            ctx = w.ctx

            def have(e):
                """make `e` (a definition of fresh variables, an already proven statement or a true fact about sin/cos)
                a named member of the path condition; such facts cannot make it unsatisfiable, so no query is spent"""
                e = z3.simplify(e)
                if z3.is_true(e):
                    return None
                ctx.pc.append(e)
                ctx.model = None
                return e

            def lemma(hyps, concl, label):
                r = ctx.check_min([h for h in hyps if h is not None], concl, label, desc)
                return ctx.pc[-1] if r is True else False
            rho0 = reg.rho.get(th0.get_id())
            contract0 = reg.contract.get(th0.get_id())
            if rho0 is None or contract0 is None:
                w.fail("sampling-structure", "start angle is not an atan2 result")
                return
            H = z3.Real("H_c16")
            A = z3.Real("A_c16")
            hH = have(z3.And(H == h2, H >= 0))
            hA = have(z3.And(A == sweep * sweep, A >= 0))
            h_rho = have(z3.And(rho >= 0, rho * rho == H))
            l_r0 = lemma([contract0, h_rho, hH], rho0 == rho, "lemma-start-radius")
            if l_r0 is False:
                return
            # L <= n  (proved above as obligation 'segment-count')  ->  A*H <= n*n
            hL = have(z3.And(L <= n, L >= 0))
            l_len = lemma([hL, hA, hH, h_rho], A * H <= n * n, "lemma-arc-length-bound")
            if l_len is False:
                return
            c0s0 = trig.lookup(th0)
            prs = [c0s0] + [(cs[k - 1][2], sn[k - 1][2]) for k in range(1, n)]
            prev = (tx, ty)
            prev_fact = z3.And(tx == tx, ty == ty)
            sp_ok = True
            for k in range(1, n):
                (ca, sa), (cb, sb) = prs[k], prs[k - 1]
                q = z3.Real("q_c16_%d" % k)
                d2 = z3.Real("d2_c16_%d" % k)
                px, py = to_real(pts[2 * (k - 1)]), to_real(pts[2 * (k - 1) + 1])
                hq = have(z3.And(q == (ca - cb) * (ca - cb) + (sa - sb) * (sa - sb), q >= 0))
                hd = have(d2 == (px - prev[0]) * (px - prev[0]) + (py - prev[1]) * (py - prev[1]))
                # true fact about sine/cosine: chord <= arc; the two sample angles differ by sweep/n (proved above)
                ang_a = cs[k - 1][1]
                ang_b = th0 if k == 1 else cs[k - 2][1]
                h_fact = have(q <= (ang_a - ang_b) * (ang_a - ang_b))        # chord <= arc (true of sin/cos)
                h_ea = have(ang_a == th0 + k * inc)                              # proved: equal angles
                h_eb = have(ang_b == th0 + (k - 1) * inc) if k > 1 else None
                hc = lemma([h_fact, h_ea, h_eb, hA], q * n * n <= A, "lemma-chord-le-step")
                if hc is False:
                    return
                l1 = lemma([hc, l_len, hq, hH, hA], q * H <= 1, "lemma-scaled-chord-le-one")
                if l1 is False:
                    return
                hp = have(z3.And(px == tx + ti + ca * rho, py == ty + tj + sa * rho))
                hyps = [hq, hd, hp, h_rho, hH, l_r0, contract0]
                if k > 1:
                    hyps.append(prev_fact)
                l2 = lemma(hyps, d2 == H * q, "lemma-distance-is-scaled-chord")
                if l2 is False:
                    return
                r = ctx.check_min([l1, l2], d2 <= 1, "consecutive-samples-at-most-one-unit-apart", desc)
                if r is not True:
                    sp_ok = False
                prev = (px, py)
                prev_fact = hp
            if sp_ok:
                w.cover("spacing-checked")
        # ---- last step: previous sample (or the start point when n = 1) -> commanded end point, for end points
        #      that lie on the circle (otherwise the arc is inconsistent and no spacing can be promised)
        ctx = w.ctx

        def have(e, assumption=False):
            if assumption:
                before = len(ctx.pc)
                ctx.assume_expr(e)
                return ctx.pc[-1] if len(ctx.pc) > before else None
            e = z3.simplify(e)
            if z3.is_true(e):
                return None
            ctx.pc.append(e)
            ctx.model = None
            return e

        def lemma(hyps, concl, label):
            r = ctx.check_min([h for h in hyps if h is not None], concl, label, desc)
            return ctx.pc[-1] if r is True else False
        on_circle = have(rtx * rtx + rty * rty == h2, assumption=True)
        if on_circle is None:
            return
        w.cover("end-on-circle")
        contract_r = reg.contract.get(raw.get_id())
        contract_0 = reg.contract.get(th0.get_id())
        rho_r, rho_0 = reg.rho.get(raw.get_id()), reg.rho.get(th0.get_id())
        if contract_r is None or contract_0 is None:
            return          # degenerate atan2 (0, 0): end point at the centre cannot be on the circle
        (c_r, s_r), (c_0, s_0) = trig.lookup(raw), trig.lookup(th0)
        H2 = z3.Real("H2_c16")
        hH2 = have(z3.And(H2 == h2, H2 >= 0))
        h_rho2 = have(z3.And(rho >= 0, rho * rho == H2))
        l_r0 = lemma([contract_0, h_rho2, hH2], rho_0 == rho, "lemma-start-radius")
        if l_r0 is False:
            return
        # |(cross, dot)| = |(i, j)| * |rt| = rho * rho   (Lagrange identity), staged
        h_cd = have(z3.And(at[0][1] == cross, at[0][2] == dot))
        CR, DT, RT2 = z3.Real("CR_c16"), z3.Real("DT_c16"), z3.Real("RT2_c16")
        h_defs = have(z3.And(CR == cross, DT == dot, RT2 == rtx * rtx + rty * rty))
        l_a = lemma([contract_r, h_cd, h_defs], rho_r * rho_r == CR * CR + DT * DT, "lemma-sweep-radius-a")
        if l_a is False:
            return
        l_b = lemma([h_defs, hH2], CR * CR + DT * DT == H2 * RT2, "lemma-sweep-radius-b")
        if l_b is False:
            return
        l_rr = lemma([l_a, l_b, h_defs, on_circle, hH2, contract_r], rho_r == H2, "lemma-sweep-radius")
        if l_rr is False:
            return
        # (cos, sin) of start-angle + sweep by angle addition (sweep differs from raw by a multiple of 2*PI)
        ce, se = z3.Real("ce_c16"), z3.Real("se_c16")
        h_add = have(z3.And(ce == c_0 * c_r - s_0 * s_r, se == s_0 * c_r + c_0 * s_r))
        l_end = lemma([h_add, contract_r, contract_0, l_r0, l_rr, h_rho2, hH2, on_circle, h_cd],
                      z3.And(rho * ce == rtx, rho * se == rty), "lemma-end-point-at-start-angle-plus-sweep")
        if l_end is False:
            return
        if n >= 2:
            ang_prev = cs[n - 2][1]
            c_p, s_p = cs[n - 2][2], sn[n - 2][2]
            h_prev_ang = have(ang_prev == th0 + (n - 1) * inc)
            prev_pt = (to_real(pts[2 * (n - 2)]), to_real(pts[2 * (n - 2) + 1]))
            h_prev_pt = have(z3.And(prev_pt[0] == tx + ti + c_p * rho, prev_pt[1] == ty + tj + s_p * rho))
        else:
            ang_prev = th0
            c_p, s_p = c_0, s_0
            h_prev_ang = None
            prev_pt = (tx, ty)
            h_prev_pt = contract_0
        qe, de = z3.Real("qe_c16"), z3.Real("de_c16")
        hq = have(z3.And(qe == (ce - c_p) * (ce - c_p) + (se - s_p) * (se - s_p), qe >= 0))
        hd = have(de == (tex - prev_pt[0]) * (tex - prev_pt[0]) + (tey - prev_pt[1]) * (tey - prev_pt[1]))
        # true fact about sine/cosine: chord <= arc between the previous sample angle and start-angle + sweep
        h_fact = have(qe <= (th0 + sweep - ang_prev) * (th0 + sweep - ang_prev))
        A2 = z3.Real("A2_c16")
        hA2 = have(z3.And(A2 == sweep * sweep, A2 >= 0))
        l_step = lemma([h_fact, h_prev_ang, hA2], qe * n * n <= A2, "lemma-chord-le-step")
        if l_step is False:
            return
        hL2 = have(z3.And(L <= n, L >= 0))
        l_len = lemma([hL2, hA2, hH2, h_rho2], A2 * H2 <= n * n, "lemma-arc-length-bound")
        if l_len is False:
            return
        l1 = lemma([l_step, l_len, hq, hH2, hA2], qe * H2 <= 1, "lemma-scaled-chord-le-one")
        if l1 is False:
            return
        l2 = lemma([hq, hd, h_prev_pt, l_end, h_rho2, hH2, l_r0, contract_0], de == H2 * qe, "lemma-distance-is-scaled-chord")
        if l2 is False:
            return
        if ctx.check_min([l1, l2], de <= 1, "last-sample-to-end-point-at-most-one-unit", desc) is True:
            w.cover("end-spacing-checked")
        return
    # ---- concrete (replay) oracle on floats ---------------------------------------------------------------
    rad = math.hypot(i, j)
    a0 = math.atan2(y - cy, x - cx)
    a1 = math.atan2(ey - cy, ex - cx)
    sweep = a1 - a0
    if cw:
        while sweep >= -1e-12:
            sweep -= 2 * math.pi
        if abs(sweep + 2 * math.pi) < 1e-12 and not same_point:
            pass
    else:
        while sweep < -1e-12:
            sweep += 2 * math.pi
        if abs(sweep) < 1e-12:
            sweep = 2 * math.pi if same_point else 0.0
    if abs(sweep) < 1e-9:
        return
    okc = True
    oka = True
    oksp = True
    prev = (x, y)
    for k in range(1, n):
        px, py = pts[2 * (k - 1)], pts[2 * (k - 1) + 1]
        if abs(math.hypot(px - cx, py - cy) - rad) > 1e-6 * max(1.0, rad):
            okc = False
        ang = a0 + k * sweep / n
        if abs(px - (cx + rad * math.cos(ang))) > 1e-6 * max(1.0, rad) or abs(py - (cy + rad * math.sin(ang))) > 1e-6 * max(1.0, rad):
            oka = False
        if math.hypot(px - prev[0], py - prev[1]) > 1 + 1e-6:
            oksp = False
        prev = (px, py)
    w.check(okc, "samples-on-the-circle-at-the-sample-angles", desc)
    w.check(oka, "equal-angles-in-commanded-direction-over-sweep", desc)
    w.check(oksp, "consecutive-samples-at-most-one-unit-apart", desc)
    w.check(n == max(1, math.ceil(abs(sweep) * rad - 1e-9)), "segment-count-is-ceil-of-arc-length",
            "%s expected ceil(%r)" % (desc, abs(sweep) * rad))


def scen_handler(w, S=3):
    """Through the real G2/G3 handler, the SAME arc command twice (second one starts where the first ended): the points
    handed to the region test must lie on the circle around *that command's* start + (I, J)."""
    state, h, x, y = setup(w)
    i, j, ex, ey = w.real("i"), w.real("j"), w.real("ex"), w.real("ey")
    cw = w.flag("clockwise")
    r2 = i * i + j * j
    lo, hi = (0.04, 0.16) if not w.symbolic else (__import__("fractions").Fraction(4, 100), __import__("fractions").Fraction(16, 100))
    w.assume(alg.and_(r2 >= lo, r2 <= hi))           # radius 0.2 .. 0.4: a full circle has at most 3 segments
    if w.symbolic:
        from symx import trig, values
        trig.LIGHT[0] = False
        values.HYPOT_LIGHT[0] = False
        w.ctx.notes["int_bounds"] = (0, S)
    style = ["", "."][w.choose(2, "j-spelling")]
    if style == ".":
        w.assume(alg.and_(j > 0, j < 1))
    calls = []
    real_plm = state.processLinearMoves

    def processLinearMoves(cmd, e, f, z, *xy):
        calls.append(list(xy))
        return real_plm(cmd, e, f, z, *xy)
    state.processLinearMoves = processLinearMoves
    text = "%s X%s Y%s I%s J%s" % ("G2" if cw else "G3", w.key(ex), w.key(ey), w.key(i), w.key(j, style))
    starts = [(x, y), (ex, ey)]
    for rep in range(2):
        try:
            h.handleGcode(text, "G2" if cw else "G3", None)
        except Exception as exc:
            w.fail("arc-handler-raises", "%r" % (exc,))
            return
        if len(calls) != rep + 1:
            w.fail("arc-not-planned", "%s (occurrence %d) was not handed to the region test" % (text, rep + 1))
            return
        pts = calls[-1]
        sx, sy = starts[rep]
        cx, cy = sx + i, sy + j
        conds = [alg.eq(pts[-2], ex), alg.eq(pts[-1], ey)]
        for k in range(0, len(pts) - 2, 2):
            d = (pts[k] - cx) * (pts[k] - cx) + (pts[k + 1] - cy) * (pts[k + 1] - cy)
            conds.append(d == r2 if w.symbolic else abs(d - r2) <= 1e-9)
        w.cover("handler-arc-%d-segments-%d" % (rep + 1, len(pts) // 2))
        if not w.check(alg.and_(*conds), "handler-samples-on-this-commands-circle",
                       "%s occurrence %d, %d segments" % (text, rep + 1, len(pts) // 2)):
            return


def scen_radius(w):
    state, h, x, y = setup(w)
    ex, ey, r = w.real("ex"), w.real("ey"), w.real("r")
    cw = w.flag("clockwise")
    dx, dy = ex - x, ey - y
    if w.symbolic:
        from symx import trig, values
        trig.LIGHT[0] = False
        values.HYPOT_LIGHT[0] = False
    # property quantifier: a radius that can reach (|R| >= half the chord), end point different from start, R != 0
    w.assume(alg.and_(alg.ne(r, 0), alg.or_(alg.ne(dx, 0), alg.ne(dy, 0)), 4 * r * r >= dx * dx + dy * dy,
                      r * r <= 250000, r * r >= 0.04 if not w.symbolic else r * r >= __import__("fractions").Fraction(4, 100)))
    if KF_RADIUS in w.excluded:
        w.assume(alg.or_(alg.eq(dx, 0), alg.eq(dy, 0)))
    try:
        i, j = h.computeArcCenterOffsets(ex, ey, r, cw)
    except Exception as exc:
        w.fail("computeArcCenterOffsets-raises", "%r" % (exc,))
        return
    w.cover("radius-form")
    d1 = i * i + j * j
    d2 = (x + i - ex) * (x + i - ex) + (y + j - ey) * (y + j - ey)
    if w.symbolic:
        ok = alg.and_(d1 == r * r, d2 == r * r)
    else:
        tol = 1e-6 * max(1.0, r * r)
        ok = abs(d1 - r * r) <= tol and abs(d2 - r * r) <= tol
    w.check(ok, "radius-form-centre-at-distance-R-from-both-endpoints",
            "clockwise=%s: |centre-start|^2=%s |centre-end|^2=%s R^2=%s" % (cw, d1, d2, r * r) if not w.symbolic else "clockwise=%s" % cw)


SCENARIOS = {"ij": scen_ij, "radius": scen_radius, "handler": scen_handler}

META = {
    "assumptions": [
        "floats as reals; trig by contract (symx/trig.py): atan2 -> angle with its (cos, sin, rho) triple, cos/sin -> a pair "
        "with c*c+s*s=1 per angle term, chord<=arc instances for consecutive sample angles; PI is a constant with "
        "3.14159 < PI < 3.1416 and TWO_PI = 2*PI as computed by the module",
        "absolute positioning, millimetres; start point set through the real G28/G1 handlers",
    ],
    "outside_claim": ["arcs with more than S segments (the loop body is uniform, but that is an argument, not a verdict)",
                      "the consequence clause about regions (an arc reaching deeper than the resolution is excluded)",
                      "relative-mode arcs, helical Z, signed zeros, the difference between TWO_PI and 2*pi at ulp level"],
}


def plan(tier):
    S = 6 if tier == "quick" else 12
    return [
        Scenario("ij", scen_ij, params={"S": S}, cover=["segments-1", "segments-2", "segments-%d" % S, "spacing-checked", "end-spacing-checked"],
                 bounds={"segments": "1..%d" % S, "radius": "0.2..500"}),
        Scenario("radius", scen_radius, cover=["radius-form"], bounds={"radius": "0.2..500"},
                 excludable=[KF_RADIUS]),
        Scenario("handler", scen_handler, params={"S": 3}, cover=["handler-arc-2-segments-2"],
                 bounds={"segments": "1..3", "radius": "0.2..0.4", "commands": "the same G2/G3 text twice"}),
    ]
