"""C01 -- no motion into and no extrusion inside an excluded region.

Scheme BSR.  V executes the file (true tool path), P executes what the filter returns.  Oracle episode
flag `ep` (on V's true path): after a move command it is "destination (any arc sample) inside a region".
Obligations per command (exclusion enabled throughout; C14 handles @-commands):
  (a) every element executed by P that changes P's X or Y ends at a point outside every region;
  (b) if the oracle says an episode is open after the command, every element executed by P has
      dx = dy = dz = 0 and pushes no filament (dfil <= 0).
Region additions are interleaved with the command stream (step "addRegion").
"""
from symx import alg
from harness.base import Scenario
from harness import pipeline as pl
from harness.pipeline import S

PROPERTY = "C01"

ADD = pl.Shape("@addRegion", (), tag="addRegion")
REPLACE = pl.Shape("@replaceRegion", (), tag="replaceRegion")

ALPHABET = {
    "moves": [S("G1", "X# Y#"), S("G1", "X# Y# E#"), S("G0", "X#"), S("G1", "Y#"), S("G1", "Z#"),
              S("G1", "X# Y# Z# E#"), S("G1", "E#"), ADD, REPLACE],
    "retract": [S("G1", "X# Y#"), S("G1", "X# Y# E#"), S("G1", "E#"), S("G10", ""), S("G11", ""),
                S("G92", "E#"), S("G1", "Y# E#")],
    "modes": [S("G1", "X# Y#"), S("G1", "X#"), S("G1", "Y# E#"), S("G90"), S("G91"), S("G20"), S("G21"),
              S("G1", "Z#"), pl.REPEAT],
    "other": [S("G1", "X# Y#"), S("G1", "Y#"), S("M105"), S("G4", "P#"), S("M204", "P#"), S("M117", "S1"),
              S("G1", "X#. Y#-")],
    "arcs": [S("G2", "X# Y# I# J#"), S("G3", "X# Y# I# J# E#"), S("G1", "X# Y#"), S("G1", "Y#"), S("G1", "X# E#"),
             S("G2", "X# Y# R#"), pl.REPEAT],
}

ALPHABET["add"] = [ADD]
ALPHABET["enter"] = [S("G1", "X# Y#"), S("G1", "X# Y# E#"), S("G1", "X# Y# Z# E#")]
ALPHABET["leave"] = [S("G1", "X# Y#"), S("G0", "X#"), S("G1", "Y# E#")]

KF_REL_EXIT = "exit_while_xyz_relative"
KF_ARC_TRACK = "move_after_excluded_arc"
KF_SYNTH_E_REL = "synth_e_while_e_relative"


def scen(w, template="moves,moves", R=1, kinds="rd"):
    """template: comma separated alphabet names, one per program position."""
    names = template.split(",")
    K = len(names)
    g90e = w.flag("g90e") if ("modes" in names or "retract" in names) else False
    pipe = pl.Pipe(w, g90e, extended={"G4": "exclude", "M204": "merge", "M117": "last"},
                   enter=["M300 S440"], exit_=["M300 S880"])
    kinds = [("rect" if (kinds == "r" or (kinds == "rd" and w.choose(2, "rkind%d" % i) == 0)) else "disc")
             for i in range(R + 1)]
    nreg = w.choose(R + 1, "nregions")      # possibly none yet: the first region is then drawn in mid-print
    for i in range(nreg):
        pipe.add_region(pl.fresh_region(w, kinds[i], "r%d" % i))
    pipe.prologue()
    added = False
    arc_excluded = False
    for k in range(K):
        shapes = ALPHABET[names[k]]
        shape = shapes[w.choose(len(shapes), "shape")]
        w.cover("shape-" + shape.tag)
        if shape is ADD:
            if added:
                pl.skip(w, "second addRegion")
            added = True
            pipe.add_region(pl.fresh_region(w, kinds[R], "radd"))
            continue
        if shape is REPLACE:
            # the user redraws region r0 (API update; shrinking allowed): new arbitrary geometry, same id
            if not pipe.regions or pipe.regions[0].id != "r0":
                pl.skip(w, "no region r0 to replace")
            new = pl.fresh_region(w, pipe.regions[0].kind, "r0")
            new.params = tuple(w.real("rep%d_%d" % (k, i)) for i in range(len(new.params)))
            pipe.regions[0] = new
            pipe.state.replaceRegion(new.build(w.env), False)
            continue
        text, code = pl.next_text(w, pipe, shape)
        rec = pipe.begin(text)
        if code in ("G2", "G3") and not pipe.V.abs_xyz:
            pl.skip(w, "arc in relative mode")
        if rec.is_move and not pipe.V.abs_xyz and KF_REL_EXIT in w.excluded:
            w.assume(alg.not_(alg.and_(rec.ep_before, alg.not_(rec.dest_inside))))
        if KF_ARC_TRACK in w.excluded and arc_excluded is not False and rec.is_move:
            w.assume(alg.not_(arc_excluded))
        rec = pipe.finish()
        if rec.raised is not None:
            w.fail("handler-raised", "%s raised %r" % (text, rec.raised))
            return
        if KF_SYNTH_E_REL in w.excluded and not pipe.V.abs_e and pl.synth_has_e(rec):
            pl.skip(w, KF_SYNTH_E_REL)
        if code in ("G2", "G3") and pipe._arc_pre:
            arc_excluded = alg.or_(arc_excluded, rec.dest_inside)
        # (a) no element moves the tool in X/Y to a point inside a region
        conds = []
        for m in rec.motions:
            moved = alg.or_(alg.ne(m.dx, 0), alg.ne(m.dy, 0))
            conds.append(alg.implies(moved, alg.not_(pipe.inside(m.x_after, m.y_after))))
        ok = w.check(alg.and_(*conds) if conds else True, "no-motion-into-region",
                     "step %d %r -> %r" % (k, text, rec.emitted))
        # (b) while the oracle's episode is open nothing moves and no filament is pushed
        conds = []
        for m in rec.motions:
            conds.append(alg.and_(alg.eq(m.dx, 0), alg.eq(m.dy, 0), alg.eq(m.dz, 0), alg.le(m.dfil, 0)))
        still = alg.and_(*conds) if conds else True
        ok2 = w.check(alg.implies(rec.ep_after, still), "no-motion-no-extrusion-inside-episode",
                      "step %d %r -> %r" % (k, text, rec.emitted))
        if rec.excluding_after:
            w.cover("episode-entered")
        if rec.excluding_before and not rec.excluding_after:
            w.cover("episode-left")
        if ok is False or ok2 is False:
            return


SCENARIOS = {}


def scen_ind(w, start="outside", kinds="rd"):
    from harness import inductive
    inductive.step(w, "C01", start, kinds)

META = {
    "assumptions": [
        "floats modelled as reals; hypot by contract (polynomial)",
        "planArc/computeArcCenterOffsets stubbed (arbitrary samples / centre offsets); arcs only in absolute mode",
        "exclusion enabled throughout (C14 covers @-commands); logger stubbed; numbers enter through numeric-key literals",
        "isPointExcluded is executed on all of its paths and merged into one boolean (pure-function summary)",
    ],
    "outside_claim": ["G28, G92 X/Y/Z, M206 (not in the property's dialect / necessarily move)",
                      "the straight-line path between two outside points (the property speaks about destinations)",
                      "programs longer than K"],
}


def plan(tier):
    out = []

    def add(name, template, kinds="rd", cover_extra=()):
        names = template.split(",")
        cov = sorted(set("shape-" + s.tag for n in names for s in ALPHABET[n]))
        SCENARIOS[name] = scen
        out.append(Scenario(name, scen, params={"template": template, "R": 1, "kinds": kinds},
                            cover=cov + ["episode-entered", "episode-left"],
                            bounds={"K": len(names), "R": "1 (+1 added mid-stream)", "region kinds": kinds,
                                    "alphabet per position": {n: [s.tag for s in ALPHABET[n]] for n in set(names)}},
                            excludable=[KF_REL_EXIT, KF_ARC_TRACK, KF_SYNTH_E_REL]))
    main = ("moves", "retract", "modes", "other")
    for a in main:
        add("k2-" + a, "%s,%s" % (a, a))
        add("k3-episode-" + a, "enter,%s,leave" % a, kinds="r" if tier == "quick" else "rd")
    add("k2-arcs", "arcs,arcs", kinds="d" if tier == "quick" else "rd")
    add("k3-arc-region-move", "arcs,add,leave", kinds="r")
    from harness import inductive
    for start in ("outside", "inside"):
        SCENARIOS["ind-" + start] = scen_ind
        out.append(Scenario("ind-" + start, scen_ind, params={"start": start, "kinds": "rd"},
                            cover=["shape-" + s.tag for s in inductive.SHAPES] + ["ends-inside", "ends-outside"],
                            bounds={"K": "1 step from an arbitrary invariant state (all history lengths)",
                                    "alphabet": [s.tag for s in inductive.SHAPES]},
                            excludable=inductive.EXCLUDABLE))
    # (planned for the thorough tier but not completed end to end in the time available, hence outside the claim:
    #  "arcs,arcs,leave", "retract,retract,retract", "modes,enter,modes,leave", "retract,enter,retract,leave";
    #  the first of them alone ran for more than 25 minutes.  The thorough tier widens the region kinds of the
    #  episode and arc templates instead -- that plan ran end to end.)
    return out


plan("thorough")
