"""harness.base -- shared driver: worlds (symbolic / concrete), scenarios, replay, evidence.

A *scenario* is a function `fn(w, **params)` written once against the `World` interface.  It is run
  * symbolically: `w` wraps the symx explorer, inputs are solver variables, `w.check` is a solver query;
  * concretely (replay): `w` holds the values of a counterexample, the repository is imported in the
    ordinary way (pristine, real floats, real `re`/`math`), `w.check` evaluates a Python bool.
"""
from __future__ import annotations

import hashlib
import importlib
import json
import os
import subprocess
import sys
import time
from fractions import Fraction

VERIF = os.path.dirname(os.path.dirname(os.path.abspath(__file__)))
REPO = os.environ.get("VERIF_REPO", "/repo")
PKG = "octoprint_excluderegion"

EXIT_OK, EXIT_VIOLATION, EXIT_INCONCLUSIVE = 0, 1, 2
DEFAULT_BUDGET_S = {"quick": 600, "thorough": 3600}   # per scenario; exhausting it is INCONCLUSIVE


# -------------------------------------------------------------------------------------------------
class NullLogger(object):
    """Logger stub: every level disabled, empty bodies (DESIGN 4.4)."""

    def isEnabledFor(self, level):
        return False

    def _nop(self, *a, **k):
        return None

    debug = info = warning = warn = error = exception = critical = log = _nop

    def __deepcopy__(self, memo):
        return self


class Env(object):
    """Access to the repo modules in the current mode."""

    def __init__(self, symbolic):
        self.symbolic = symbolic
        if symbolic:
            from symx import loader
            loader.install()
            self._mod = loader.mod
        else:
            if REPO not in sys.path:
                sys.path.insert(0, REPO)
            sys.dont_write_bytecode = True

            def _mod(name):
                full = PKG + "." + name if name else PKG
                importlib.import_module(full)
                return sys.modules[full]
            self._mod = _mod
        self.cache = {}

    def mod(self, name):
        m = self.cache.get(name)
        if m is None:
            m = self.cache[name] = self._mod(name)
        return m

    def __getattr__(self, cls):
        # env.GcodeHandlers -> class GcodeHandlers of module GcodeHandlers
        if cls.startswith("_"):
            raise AttributeError(cls)
        return getattr(self.mod(cls), cls)


_ENV = {}


def env(symbolic):
    e = _ENV.get(symbolic)
    if e is None:
        e = _ENV[symbolic] = Env(symbolic)
    return e


# -------------------------------------------------------------------------------------------------
class SymWorld(object):
    symbolic = True

    def __init__(self, ctx, excluded=()):
        from symx import values
        self.ctx = ctx
        self.v = values
        self.env = env(True)
        self.excluded = set(excluded)   # names of known-finding predicates assumed away

    def real(self, name):
        return self.v.fresh_real(name, self.ctx)

    def boolean(self, name):
        return self.v.fresh_bool(name, self.ctx)

    def choose(self, n, label="c"):
        return self.ctx.choose(n, label)

    def char(self, name, domain):
        """A symbolic character (code point variable) restricted to the interval set `domain`."""
        from symx import strings
        return strings.fresh_char(name, domain)

    def text(self, parts):
        """Build a (symbolic) string from concrete pieces and symbolic characters."""
        from symx import strings
        out = []
        for p in parts:
            if isinstance(p, str):
                out.extend(p)
            elif isinstance(p, strings.SymStr):
                out.extend(p.e)
            else:
                out.append(p)
        return strings.SymStr(out)

    def flag(self, label):
        """A nondeterministic *concrete* boolean (forked)."""
        return self.ctx.choose(2, label) == 1

    def _z(self, cond):
        import z3
        if isinstance(cond, bool):
            return z3.BoolVal(cond)
        return self.v.zb(cond)

    def check(self, cond, label, detail=None):
        return self.ctx.check(self._z(cond), label, detail)

    def fail(self, label, detail):
        return self.ctx.check(False, label, detail)

    def holds(self, cond):
        """Does `cond` follow from the path condition?  True / False / None; nothing is recorded (used to pick the
        cheaper of two sufficient formulations of an obligation)."""
        import z3
        neg = z3.simplify(z3.Not(self._z(cond)))
        if z3.is_false(neg):
            return True
        neg = self.ctx._ctx_simplify(neg)
        if z3.is_false(neg):
            return True
        r, _ = self.ctx._check(neg, obligation=True)
        return True if r == "unsat" else (False if r == "sat" else None)

    def assume(self, cond):
        self.ctx.assume_expr(self._z(cond))

    def assume_feasible(self, cond):
        self.ctx.assume_checked(self._z(cond))

    def cover(self, label):
        self.ctx.cover(label)

    def note(self, k, v):
        self.ctx.notes[k] = v

    def key(self, sym, style=""):
        """Register a numeric-key literal standing for SymReal `sym` inside command text.

        style: ""  plain digits; "." leading decimal point (requires 0 < v < 1); "+" explicit plus sign;
               "-" explicit minus sign (the literal denotes -|v|, requires v < 0)"""
        kt = self.ctx.key_table
        lit = str(900001 + len(kt))
        if style == ".":
            self.assume(self.v._mk_bool(__import__("z3").And(sym.t > 0, sym.t < 1)))
            lit = "." + lit
            kt[lit] = sym
        elif style == "+":
            kt[lit] = sym
            lit = "+" + lit
        elif style == "-":
            self.assume(sym < 0)
            kt[lit] = -sym
            lit = "-" + lit
        else:
            kt[lit] = sym
        return lit

    def resolve_number(self, text):
        """Number token of emitted text -> value (marker / key literal / plain decimal)."""
        from symx.values import MARK, SymReal
        if text.startswith(MARK):
            tid = int(text.strip(MARK))
            return SymReal(self.ctx.fmt_table[tid][0])
        neg = False
        t = text
        if t in self.ctx.key_table:
            return self.ctx.key_table[t]
        if t[:1] in "+-":
            neg = t[0] == "-"
            t = t[1:]
        if t in self.ctx.key_table:
            v = self.ctx.key_table[t]
            return -v if neg else v
        return Fraction(text)


class Diverged(Exception):
    pass


class ConcWorld(object):
    symbolic = False

    def __init__(self, inputs, excluded=()):
        self.inputs = inputs
        self.env = env(False)
        self.failures = []
        self.covered = []
        self.counters = {}
        self.notes = {}
        self.key_table = {}
        self.excluded = set(excluded)
        self.assume_failed = False
        self._install_clock()

    def _install_clock(self):
        """Counterexamples that depend on the (stubbed) clock carry its instants as inputs clock!1, clock!2, ...:
        callers inside the repository get them from time.time() in that order; everybody else gets the real time."""
        clocks = sorted((int(k.split("!")[1]), float(self._val(k))) for k in self.inputs if k.startswith("clock!"))
        if not clocks:
            return
        import time as _t
        real = _t.time
        seq = [v for _, v in clocks]
        state = {"i": 0}

        def fake():
            if not sys._getframe(1).f_code.co_filename.startswith(REPO):
                return real()
            i = state["i"]
            state["i"] = i + 1
            return seq[i] if i < len(seq) else seq[-1]
        _t.time = fake

    def _val(self, name, default=0):
        v = self.inputs.get(name)
        if v is None:
            return default
        if isinstance(v, dict):
            return Fraction(int(v["num"]), int(v["den"]))
        return v

    def real(self, name):
        return float(self._val(name, 0))

    def boolean(self, name):
        return bool(self._val(name, False))

    def choose(self, n, label="c"):
        k = self.counters.get(label, 0) + 1     # (counted even when n <= 1: the symbolic engine names it too)
        self.counters[label] = k
        if n <= 1:
            return 0
        v = int(self._val("sel_%s!%d" % (label, k), 0))
        return max(0, min(n - 1, v))

    def flag(self, label):
        return self.choose(2, label) == 1

    def char(self, name, domain):
        v = int(self._val(name, domain[0][0]))
        return chr(v)

    def text(self, parts):
        return "".join(parts)

    def check(self, cond, label, detail=None):
        if not cond:
            self.failures.append({"label": label, "detail": detail})
            return False
        return True

    def fail(self, label, detail):
        self.failures.append({"label": label, "detail": detail})
        return False

    def holds(self, cond):
        return bool(cond)

    def assume(self, cond):
        if not cond:
            self.assume_failed = True
            raise Diverged("assumption does not hold concretely")

    assume_feasible = assume

    def cover(self, label):
        self.covered.append(label)

    def note(self, k, v):
        self.notes[k] = v

    def key(self, value, style=""):
        # concrete mode: the literal is the number itself, in plain decimal, in the requested spelling
        t = fmt_plain(value)
        if style == ".":
            self.assume(0 < value < 1)
            return t[1:] if t.startswith("0.") else t
        if style == "+":
            return t if t.startswith("-") else "+" + t
        if style == "-":
            self.assume(value < 0)
        return t

    def resolve_number(self, text):
        return float(text)


def fmt_plain(v):
    """Plain-decimal rendering of a float, never exponent notation."""
    s = repr(float(v))
    if "e" in s or "E" in s:
        s = "%.15f" % float(v)
        s = s.rstrip("0").rstrip(".") if "." in s else s
    if s.endswith(".0"):
        s = s[:-2]
    return s


# -------------------------------------------------------------------------------------------------
class Scenario(object):
    def __init__(self, name, fn, params=None, cover=(), twin=True, bounds=None, budget_s=None,
                 excludable=(), nra_mode="oneshot"):
        self.nra_mode = nra_mode
        self.name = name
        self.fn = fn
        self.params = params or {}
        self.cover = tuple(cover)
        self.twin = twin
        self.bounds = bounds or {}
        self.budget_s = budget_s
        self.excludable = tuple(excludable)


def _load_known():
    p = os.path.join(VERIF, "known_findings.json")
    if not os.path.exists(p):
        return []
    return json.load(open(p)).get("findings", [])


def _py():
    return os.path.join(VERIF, ".venv", "bin", "python")


def replay_file(path, timeout=1200):
    """Run a replay artefact in a separate pristine interpreter; returns dict(result)."""
    envv = dict(os.environ)
    envv["PYTHONPATH"] = VERIF
    envv["VERIF_REPO"] = REPO
    try:
        pr = subprocess.run([_py(), "-m", "harness.replay_main", path], cwd=VERIF, env=envv,
                            capture_output=True, text=True, timeout=timeout)
    except subprocess.TimeoutExpired:
        return {"reproduced": False, "error": "replay timed out after %ds" % timeout}
    out = pr.stdout.strip().splitlines()
    try:
        return json.loads(out[-1])
    except Exception:
        return {"reproduced": False, "error": (pr.stdout + pr.stderr)[-2000:]}


def write_replay(pid, scen, viol, tag=None):
    rdir = os.environ.get("VERIF_REPLAY_DIR", os.path.join(VERIF, "replays"))
    os.makedirs(rdir, exist_ok=True)
    body = {"property": pid, "scenario": scen.name, "params": scen.params, "inputs": viol["inputs"],
            "label": viol["label"], "detail": viol.get("detail"), "excluded": viol.get("excluded", [])}
    blob = json.dumps(body, sort_keys=True, indent=1)
    sha = hashlib.sha256(blob.encode()).hexdigest()[:12]
    path = os.path.join(rdir, "%s-%s.json" % (pid, tag or sha))
    with open(path, "w") as fh:
        fh.write(blob + "\n")
    return path


def run_concrete(pid, scen_name, params, inputs, excluded=()):
    """Execute one scenario concretely on the pristine code (called inside the replay interpreter)."""
    hm = importlib.import_module("harness." + pid.lower())
    fn = hm.SCENARIOS[scen_name]
    w = ConcWorld(inputs, excluded)
    res = {"reproduced": False, "failures": [], "diverged": False}
    try:
        fn(w, **params)
    except Diverged:
        res["diverged"] = True
    res["failures"] = w.failures
    res["reproduced"] = bool(w.failures)
    res["covered"] = w.covered
    res["notes"] = {k: (v if isinstance(v, (str, int, float, list, dict, bool, type(None))) else str(v))
                    for k, v in w.notes.items()}
    return res


# -------------------------------------------------------------------------------------------------
_NUM = None


def _skeleton(items):
    """Command skeleton of a program note: codes and parameter letters, numbers blanked; None if not comparable."""
    import re
    global _NUM
    if _NUM is None:
        _NUM = re.compile(r"[-+]?(?:\d+\.?\d*|\.\d+)(?:[eE][-+]?\d+)?")
    if not isinstance(items, list):
        return None
    out = []
    for t in items:
        if not isinstance(t, str) or "<symbolic" in t:
            return None
        words = t.split()
        sk = []
        for i, wd in enumerate(words):
            if i == 0 and wd[:1] in "GMT" and wd[1:].replace(".", "").isdigit():
                sk.append(wd)
            else:
                sk.append(_NUM.sub("#", wd))
        out.append(" ".join(sk))
    return out


def _alignment_sample(pid, sc, scen, seed, setup, excl, want=2):
    from symx import core
    core.WITNESS_MODE = True
    try:
        st3, vs3, _ = core.run_scenario(scen, seed=seed, setup=setup, budget_s=30, early_stop=16)
    finally:
        core.WITNESS_MODE = False
    vs3 = [v for v in vs3 if v["label"] == "path-witness"]
    cands = list(vs3)
    # prefer paths with many non-default choices (they exercise the selector naming)
    cands.sort(key=lambda v: -sum(1 for k, x in v["inputs"].items() if k.startswith("sel_") and x))
    res = {"sampled_paths": len(vs3), "replayed": 0, "programs_compared": 0, "cover_compared": 0, "mismatches": []}
    for v in cands[:want]:
        v = dict(v, excluded=list(excl))
        path = write_replay(pid, sc, v, tag="align-%s-%d" % (sc.name, res["replayed"]))
        rr = replay_file(path)
        try:
            os.remove(path)
        except OSError:
            pass
        if rr.get("error") or rr.get("diverged"):
            continue            # (replay infrastructure trouble is reported by the candidate replays, not here)
        res["replayed"] += 1
        extra = v.get("extra", {})
        sym = _skeleton(extra.get("program"))
        conc = _skeleton((rr.get("notes") or {}).get("program"))
        if sym is not None and conc is not None:
            res["programs_compared"] += 1
            if conc[:len(sym)] != sym:
                res["mismatches"].append("program: symbolic %r / concrete %r" % (sym, conc))
                continue
        sc_cov, cc_cov = extra.get("_covered"), rr.get("covered")
        if sc_cov is not None and cc_cov is not None:
            res["cover_compared"] += 1
            missing = sorted(set(sc_cov) - set(cc_cov))
            if missing:
                # data-dependent cover points can flip under float rounding at a boundary: reported, not a verdict
                res.setdefault("cover_notes", []).append("cover points of the symbolic path not reached "
                                                         "concretely: %r" % (missing,))
    return res


def run_property(hm, tier, seed):
    """Generic driver. `hm` is the harness module (PROPERTY, plan(tier), SCENARIOS, META)."""
    from symx import core, shims, loader
    pid = hm.PROPERTY
    t0 = time.time()
    lines = []
    known = [k for k in _load_known() if k.get("property") == pid]
    excluded = []
    kf_confirmed = []
    replays_run = 0
    align_runs = 0
    status = EXIT_OK
    # 1. known findings: replay each open witness on the current tree
    for k in known:
        if k.get("status") != "open":
            continue
        wpath = os.path.join(VERIF, k["witness"])
        rr = replay_file(wpath)
        replays_run += 1
        if rr.get("reproduced"):
            print("KNOWN-FINDING: property=%s %s [%s]" % (pid, k["what"], k["id"]))
            kf_confirmed.append(k["id"])
        else:
            print("note: the stored witness of open known finding %s does not reproduce on this tree; its scenario class "
                  "stays assumed away (an open entry is only ever removed by editing known_findings.json)" % k["id"])
        if k.get("predicate"):
            excluded.append(k["predicate"])
    sys.stdout.flush()

    env(True)
    validation_runs = 0
    # translator validation: the repository's own pinned tests must pass on the instrumented modules
    tv = subprocess.run([_py(), os.path.join(VERIF, "tools", "validate_translator.py")], capture_output=True, text=True,
                        env=dict(os.environ, PYTHONPATH=VERIF, PYTHONWARNINGS="ignore"))
    tv_line = [l for l in tv.stdout.splitlines() if l.startswith("instrumented modules")]
    if tv.returncode != 0 or not tv_line:
        print("INCONCLUSIVE property=%s translator validation failed (repo unit tests on instrumented modules): %s" % (
            pid, (tv.stdout + tv.stderr)[-400:]))
        return EXIT_INCONCLUSIVE
    print("  [%s] translator validation: %s" % (pid, tv_line[0]))
    validation_runs += int(tv_line[0].split(":")[-1].split("/")[0])
    if hasattr(hm, "validate"):
        # concrete validation of the library models used by this harness (regex model, float format contract)
        n_val, bad = hm.validate()
        validation_runs += n_val
        if bad:
            print("INCONCLUSIVE property=%s model validation failed: %r" % (pid, bad[:3]))
            return EXIT_INCONCLUSIVE
        print("  [%s] library models validated against the real implementation on %d cases" % (pid, n_val))
    plan = hm.plan(tier)
    total = core.Stats()
    per_scen = []
    violations = []     # (scenario, violation json)
    inconclusive = []
    setup = lambda c: c.global_axioms.extend(shims.GLOBAL_AXIOMS)
    for sc in plan:
        ts = time.time()
        excl = tuple(p for p in excluded if p in sc.excludable)

        def scen(ctx, _sc=sc, _excl=excl):
            w = SymWorld(ctx, _excl)
            _sc.fn(w, **_sc.params)
        core.NRA_MODE = sc.nra_mode
        st, vs, complete = core.run_scenario(scen, seed=seed, setup=setup,
                                             budget_s=sc.budget_s or DEFAULT_BUDGET_S[tier])
        total.merge(st)
        info = {"scenario": sc.name, "params": sc.params, "bounds": sc.bounds, "complete": complete,
                "wall_s": round(time.time() - ts, 2), "excluded_known": list(excl)}
        info.update(st.as_dict())
        if not complete and not vs:
            inconclusive.append("%s: exploration budget exhausted" % sc.name)
        if st.obl_unknown:
            inconclusive.append("%s: %d obligations unknown" % (sc.name, st.obl_unknown))
        if st.unsupported:
            inconclusive.append("%s: unsupported/exception: %s" % (sc.name, st.unsupported[0][:300]))
        if st.bound_exceeded:
            info["bound_exceeded_paths"] = st.bound_exceeded
        missing = [c for c in sc.cover if not st.cover.get(c)]
        if missing:
            inconclusive.append("%s: cover points never reached (vacuous?): %s" % (sc.name, missing))
        for v in vs:
            v["excluded"] = list(excl)
            violations.append((sc, v))
        # must-fail twin (vacuity guard): same harness, final obligations replaced by False
        if sc.twin and not vs:
            st2, vs2, _ = core.run_scenario(scen, seed=seed, setup=setup, must_fail=True,
                                            stop_on_first=True, budget_s=60)
            info["twin_violations"] = len(vs2)
            if not vs2:
                inconclusive.append("%s: must-fail twin found no violation (vacuous harness)" % sc.name)
            else:
                # replay-alignment guard: the concrete world must walk the SAME program as the symbolic path it
                # replays (selector naming, literal rendering); sampled on completed paths with varied choices
                al = _alignment_sample(pid, sc, scen, seed, setup, excl)
                info["replay_alignment"] = al
                align_runs += al["replayed"]
                for cn in al.get("cover_notes", []):
                    print("  [%s] NOTE %s replay alignment: %s" % (pid, sc.name, cn))
                if al["mismatches"]:
                    inconclusive.append("%s: concrete replay walks a different program than the symbolic path: %s"
                                        % (sc.name, al["mismatches"][0]))
        per_scen.append(info)
        print("  [%s] %s: paths=%d obligations=%d unsat=%d sat=%d unknown=%d solver=%.1fs wall=%.1fs%s" % (
            pid, sc.name, st.paths, st.obligations, st.obl_unsat, st.obl_sat, st.obl_unknown,
            st.solver_s, time.time() - ts, "" if complete else " INCOMPLETE"))
        sys.stdout.flush()

    # 1b. fixed concrete corpus (only where the harness declares one): executed on the pristine code with real
    #     floats; a failing program is a violation with its artefact as replay
    corpus_runs = 0
    corpus_hits = []
    for (cs_name, cs_params, cs_inputs) in getattr(hm, "CORPUS", []):
        class _S(object):
            name, params = cs_name, cs_params
        path = write_replay(pid, _S, {"inputs": cs_inputs, "label": "corpus", "detail": "fixed concrete program"},
                            tag="corpus-%d" % corpus_runs)
        rr = replay_file(path)
        corpus_runs += 1
        if rr.get("reproduced"):
            corpus_hits.append((path, rr))
        elif rr.get("error"):
            inconclusive.append("corpus program %s failed to run: %s" % (cs_params, str(rr.get("error"))[-300:]))
            os.remove(path)
        else:
            os.remove(path)
    replays_run += corpus_runs + align_runs
    # 2. replay candidates (distinct labels first)
    reproduced = []
    not_reproduced = 0
    seen = {}
    ordered = sorted(violations, key=lambda sv: seen.setdefault((sv[0].name, sv[1]["label"]), len(seen)))
    tried_per_label = {}
    for sc, v in ordered:
        keyl = (sc.name, v["label"])
        if any(r[0] == keyl for r in reproduced):
            continue
        if tried_per_label.get(keyl, 0) >= 5:
            continue
        tried_per_label[keyl] = tried_per_label.get(keyl, 0) + 1
        path = write_replay(pid, sc, v)
        rr = replay_file(path)
        replays_run += 1
        if rr.get("reproduced"):
            try:
                art = json.load(open(path))
                art["replay_result"] = {"failures": rr.get("failures"), "notes": rr.get("notes")}
                with open(path, "w") as fh:
                    json.dump(art, fh, indent=1, sort_keys=True)
                    fh.write("\n")
            except Exception:
                pass
            reproduced.append((keyl, path, rr))
        else:
            not_reproduced += 1
            try:
                os.remove(path)
            except OSError:
                pass
    for path, rr in corpus_hits:
        print("VIOLATION property=%s replay=%s" % (pid, path))
        f0 = rr["failures"][0]
        print("  concrete corpus: label=%s detail=%s" % (f0["label"], str(f0.get("detail"))[:600]))
        status = EXIT_VIOLATION
    for keyl, path, rr in reproduced:
        print("VIOLATION property=%s replay=%s" % (pid, path))
        f0 = rr["failures"][0]
        print("  scenario=%s label=%s detail=%s" % (keyl[0], f0["label"], str(f0.get("detail"))[:600]))
        status = EXIT_VIOLATION
    if violations and not reproduced:
        inconclusive.append("%d candidate counterexample(s) did not reproduce on the pristine code" % len(violations))
    if status == EXIT_OK and inconclusive:
        status = EXIT_INCONCLUSIVE
        for m in inconclusive:
            print("INCONCLUSIVE property=%s %s" % (pid, m))

    # 3. evidence
    meta = getattr(hm, "META", {})
    samples = list(total.samples[:4])
    for sc, v in ordered[:2]:
        samples.append({"scenario": sc.name, "label": v["label"], "counterexample_inputs": v["inputs"]})
    if not samples:
        samples.append({"note": "no obligation sample recorded"})
    ev = {
        "property_id": pid, "tier": tier, "seed": seed, "level": "model_checking",
        "coverage": {
            "states": max(1, total.paths), "transitions": max(1, total.decisions),
            "traces_validated_against_impl": replays_run + validation_runs,
            "model_validation_cases": validation_runs,
            "samples": samples,
            "paths_explored": total.paths, "paths_aborted_infeasible": total.paths_aborted,
            "queries": total.obligations + total.feas_queries,
            "obligations": total.obligations, "queries_unsat": total.obl_unsat,
            "queries_sat": total.obl_sat, "unknown": total.obl_unknown,
            "feasibility_queries": total.feas_queries, "feasibility_unknown": total.feas_unknown,
            "solver_s": round(total.solver_s, 2),
            "functions_encoded": sorted(total.functions),
            "source_sha256": loader.source_sha(),
            "scenarios": per_scen,
            "cover": total.cover,
            "obligation_labels": total.as_dict()["labels"],
            "known_findings_confirmed": kf_confirmed,
            "known_predicates_excluded": excluded,
            "candidates_not_reproduced": not_reproduced,
            "concrete_corpus_programs": corpus_runs,
            "inconclusive": inconclusive,
            "outside_claim": meta.get("outside_claim", []),
            "exhaustive": False,
            "rule": "one state = one completed feasible path of the real code under the symbolic inputs; "
                    "each obligation is decided by z3 for all values on that path",
        },
        "assumptions": meta.get("assumptions", []),
        "wall_s": round(time.time() - t0, 2),
        "violations": len(reproduced),
    }
    edir = os.environ.get("VERIF_EVIDENCE_DIR", os.path.join(VERIF, "evidence"))
    os.makedirs(edir, exist_ok=True)
    with open(os.path.join(edir, pid + ".json"), "w") as fh:
        json.dump(ev, fh, indent=1, sort_keys=True, default=str)
        fh.write("\n")
    print("%s property=%s tier=%s paths=%d obligations=%d (unsat=%d sat=%d unknown=%d) wall=%.1fs" % (
        {0: "OK", 1: "FAIL", 2: "INCONCLUSIVE"}[status], pid, tier, total.paths, total.obligations,
        total.obl_unsat, total.obl_sat, total.obl_unknown, time.time() - t0))
    return status
