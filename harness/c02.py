"""C02 -- transparency: a print that never touches a region is forwarded verbatim.

Scheme BSR: PRINT prologue (fresh state, G28 through the real handler), then K commands whose shapes are
chosen from the alphabet and whose numbers are solver variables; R symbolic regions (rectangle/disc).
Assumption (placed before each command reaches the code): the command's destination -- for arcs every
sampled point -- is outside every region, or exclusion is disabled throughout.
Obligation: the hook result is `None` (leave unchanged) or the one-element list holding the identical
command text; nothing is added, dropped or rewritten.
"""
from symx import alg
from harness.base import Scenario
from harness import pipeline as pl
from harness.pipeline import S

PROPERTY = "C02"

ALPHABET = {
    "moves": [S("G1", "X# Y#"), S("G1", "X# Y# E#"), S("G0", "X#"), S("G1", "Y# E#"), S("G1", "Z#"),
              S("G1", "X# Y# Z# E#"), S("G1", "E#"), S("G1", "F#"), S("G1", "E# F#"), S("G1", ""),
              S("G1", "X Y#"), S("G1", "X# X#"), S("G1", "X#. Y#"), S("G1", "X#- Y#+ E#.")],
    "retract": [S("G1", "E#"), S("G10", ""), S("G11", ""), S("G10", "S1"), S("G11", "S1"), S("G10", "P1"),
                S("G1", "X# Y# E#"), S("G1", "X# Y#")],
    "frame": [S("G20"), S("G21"), S("G90"), S("G91"), S("G92", "E#"), S("G28", "X"), S("G28"),
              S("G1", "X# Y#"), S("G1", "X# E#"), S("G1", "Z#"), pl.REPEAT],
    "other": [S("M105"), S("G4", "P#"), S("M204", "P# T#"), S("M117", "S1"), S("T1"), S("M73", "P#"),
              S("G1", "X# Y# E#"), S("G2", "X# Y# I# J#"), S("G3", "X# Y# I# J# E#"), S("G2", "X# Y# R#")],
    "arcs": [S("G2", "X# Y# I# J#"), S("G3", "X# Y# I# J# E#"), S("G2", "X# Y# R#"), S("G3", "X# I#"),
             S("G1", "Y#"), S("G1", "X#"), S("G1", "Z#")],
    "rebase": [S("G92", "X# Y#"), S("G92", "Z#"), S("G1", "X# Y#"), S("G1", "Y#"), S("G91"), S("G90")],
}

AT_OFF = pl.Shape("@ExcludeRegion off", (), tag="at-off")
AT_ON = pl.Shape("@ExcludeRegion on", (), tag="at-on")
# exclusion switched off and on again in mid-print (through the state's disable/enable entry points, which is what the
# @-command handler calls); every move -- also those made while disabled -- ends outside the regions
ALPHABET["toggle"] = [S("G1", "X# Y#"), S("G1", "Y#"), S("G1", "X# E#"), AT_OFF, AT_ON]

KF_G92 = "g92_xyz_rebase"


def scen(w, K=3, R=1, alphabet="moves"):
    shapes = ALPHABET[alphabet]
    g90e = w.flag("g90e")
    disabled = w.flag("disabled") if alphabet != "toggle" else False
    pipe = pl.Pipe(w, g90e, extended={"G4": "exclude", "M204": "merge", "M117": "last", "M73": "merge"},
                   track_p=False)
    nreg = w.choose(R + 1, "nregions") if alphabet != "toggle" else 1
    for i in range(nreg):
        kind = "rect" if w.choose(2, "rkind%d" % i) == 0 else "disc"
        pipe.add_region(pl.fresh_region(w, kind, "r%d" % i))
    if disabled:
        pipe.state.disableExclusion("verif")
        pipe.enabled = False
    pipe.home()
    for k in range(K):
        shape = shapes[w.choose(len(shapes), "shape")]
        w.cover("shape-" + shape.tag)
        if shape is AT_OFF or shape is AT_ON:
            pipe.program.append("<%s>" % shape.tag)
            w.note("program", list(pipe.program))
            if shape is AT_OFF:
                out = pipe.state.disableExclusion("verif")
                w.check(out == [], "forwarded-verbatim", "disabling outside an episode generated %r" % (out,))
            else:
                pipe.state.enableExclusion("verif")
            pipe.enabled = (shape is AT_ON) and not disabled
            continue
        text, code = pl.next_text(w, pipe, shape)
        rec = pipe.begin(text)
        if shape.code == "G92" and any(l in "XYZ" for l, _ in shape.words) and KF_G92 in w.excluded:
            pl.skip(w, KF_G92)
        if code in ("G2", "G3") and not pipe.V.abs_xyz:
            pl.skip(w, "arc in relative mode (outside C16/C02 claim)")
        if rec.is_move and pipe.regions and (pipe.enabled or alphabet == "toggle"):
            w.assume(alg.not_(rec.dest_inside))
        rec = pipe.finish()
        if rec.raised is not None:
            w.fail("handler-raised", "%s raised %r" % (text, rec.raised))
            return
        ok = rec.result is None or (isinstance(rec.result, list) and len(rec.result) == 1 and rec.result[0] == text)
        w.check(ok, "forwarded-verbatim", "program step %d %r -> %r" % (k, text, rec.result))
        if not ok:
            return


def scen_ind(w, alphabet="moves"):
    """IND: ONE command from an arbitrary state that satisfies the invariant
         Inv = tracked frame equals the file's frame, not excluding, nothing pending, no skipped recovery.
    Obligations: the command is forwarded verbatim AND Inv holds again afterwards.  With the base case (Inv holds
    after the G28 prologue, shown by the BSR scenarios) this extends transparency to programs of every length over
    the shape alphabet."""
    shapes = [s for s in ALPHABET[alphabet] if s is not pl.REPEAT and not (s.code == "G92" and any(
        l in "XYZ" for l, _ in s.words))]
    g90e = w.flag("g90e")
    disabled = w.flag("disabled")
    pipe = pl.Pipe(w, g90e, extended={"G4": "exclude", "M204": "merge", "M117": "last", "M73": "merge"},
                   track_p=False)
    nreg = w.choose(2, "nregions")
    for i in range(nreg):
        kind = "rect" if w.choose(2, "rkind%d" % i) == 0 else "disc"
        pipe.add_region(pl.fresh_region(w, kind, "r%d" % i))
    pipe.havoc_not_excluding(g90e)
    if disabled:
        pipe.state._exclusionEnabled = False
        pipe.enabled = False
    shape = shapes[w.choose(len(shapes), "shape")]
    w.cover("shape-" + shape.tag)
    text, _ = pl.render(w, shape, 0)
    rec = pipe.begin(text)
    if shape.code in ("G2", "G3") and not pipe.V.abs_xyz:
        pl.skip(w, "arc in relative mode")
    if rec.is_move and pipe.enabled and pipe.regions:
        w.assume(alg.not_(rec.dest_inside))
    rec = pipe.finish()
    if rec.raised is not None:
        w.fail("handler-raised", "%s raised %r" % (text, rec.raised))
        return
    ok = rec.result is None or (isinstance(rec.result, list) and len(rec.result) == 1 and rec.result[0] == text)
    w.check(ok, "forwarded-verbatim", "inductive step %r -> %r" % (text, rec.result))
    st = pipe.state
    lr_ok = st.lastRetraction is None or st.lastRetraction.recoverExcluded is False
    # (the E coordinate is not part of C02's invariant: transparency does not depend on it; E tracking is C04's subject)
    inv = alg.and_(pipe.tracked_equals_file(include_e=False), st.excluding is False, len(st.pendingCommands) == 0, lr_ok,
                   st.isExclusionEnabled() == (not disabled))
    w.check(inv, "invariant-re-established", "inductive step %r" % (text,))


SCENARIOS = {"bsr": scen}

META = {
    "assumptions": [
        "floats modelled as reals; hypot by contract",
        "planArc replaced by a stub returning arbitrary sample points ending in the commanded end point "
        "(what the real planArc returns is C16's subject); arcs only in absolute mode",
        "logger stubbed; program numbers are symbolic through numeric-key literals (DESIGN 5.2), the parser's "
        "reading of spellings is C19's subject",
    ],
    "outside_claim": ["programs longer than K commands", "M206", "more than R regions", "G2/G3 in relative mode"],
}


def plan(tier):
    K = 2 if tier == "quick" else 3
    out = []
    for name in ("moves", "retract", "frame", "other", "arcs", "rebase", "toggle"):
        kk = K + 1 if name in ("retract", "frame") else K
        if name == "toggle":
            kk = 4          # off, move, on, single-axis move
        if tier == "thorough" and name == "frame":
            kk = K          # (K=4 over the 11-shape frame alphabet is beyond a 15 minute tier)
        out.append(Scenario(name, scen, params={"K": kk, "R": 1, "alphabet": name},
                            cover=["shape-" + s.tag for s in ALPHABET[name]],
                            bounds={"K": kk, "alphabet": [s.tag for s in ALPHABET[name]]},
                            excludable=[KF_G92]))
    for name in ("moves", "retract", "frame", "other", "arcs"):
        out.append(Scenario("ind-" + name, scen_ind, params={"alphabet": name},
                            cover=["shape-" + s.tag for s in ALPHABET[name] if s is not pl.REPEAT
                                   and not (s.code == "G92" and any(l in "XYZ" for l, _ in s.words))],
                            bounds={"K": "1 step from an arbitrary invariant state (all history lengths)",
                                    "alphabet": [s.tag for s in ALPHABET[name]]}))
    return out


for _n in ALPHABET:
    SCENARIOS[_n] = scen
    SCENARIOS["ind-" + _n] = scen_ind
