"""Build a real ExcludeRegionPlugin instance with its OctoPrint injections stubbed (both modes)."""
from __future__ import annotations

from harness.base import NullLogger

DEFAULT_EXTENDED = [
    {"gcode": "G4", "mode": "exclude", "description": ""},
    {"gcode": "M204", "mode": "merge", "description": ""},
    {"gcode": "M205", "mode": "merge", "description": ""},
    {"gcode": "M117", "mode": "last", "description": ""},
    {"gcode": "M73", "mode": "merge", "description": ""},
]
DEFAULT_AT = [
    {"command": "ExcludeRegion", "parameterPattern": "^\\s*(enable|on)(\\s|$)",
     "action": "enable_exclusion", "description": ""},
    {"command": "ExcludeRegion", "parameterPattern": "^\\s*(disable|off)(\\s|$)",
     "action": "disable_exclusion", "description": ""},
]


class Recorder(object):
    """_plugin_manager stub: records send_plugin_message calls."""

    def __init__(self):
        self.messages = []

    def send_plugin_message(self, ident, payload):
        self.messages.append((ident, payload))

    def __deepcopy__(self, memo):
        return self


class SettingsStub(object):
    def __init__(self, values):
        self.values = values

    def get(self, path):
        return self.values[path[0]]

    def get_boolean(self, path):
        return self.values[path[0]]

    def get_plugin_logfile_path(self):
        raise AssertionError("dedicated logging not modelled")


class GlobalSettingsStub(object):
    def __init__(self, values):
        self.values = values

    def getBoolean(self, path):
        return self.values["g90InfluencesExtruder"]


class UserStub(object):
    def __init__(self):
        self.anonymous = False

    def is_anonymous(self):
        return self.anonymous


class FlaskStub(object):
    @staticmethod
    def jsonify(**kw):
        return kw


class CommStub(object):
    def __init__(self, streaming=False):
        self.streaming = streaming
        self.sent = []

    def isStreaming(self):
        return self.streaming

    def sendCommand(self, command, **kw):
        self.sent.append(command)


def set_uuid(w, fn):
    """Make uuid.uuid4() inside the region modules return fn()."""
    if w.symbolic:
        from symx import shims
        shims.uuid_hook[0] = fn
    else:
        class _U(object):
            @staticmethod
            def uuid4():
                return fn()
        w.env.mod("RectangularRegion").uuid = _U
        w.env.mod("CircularRegion").uuid = _U


def make_plugin(w, clear_after=False, may_shrink=False, g90e=False, enter=None, exit_=None,
                extended=None, at=None):
    pkg = w.env.mod("")
    values = {
        "clearRegionsAfterPrintFinishes": clear_after,
        "mayShrinkRegionsWhilePrinting": may_shrink,
        "loggingMode": "octoprint",
        "enteringExcludedRegionGcode": enter,
        "exitingExcludedRegionGcode": exit_,
        "extendedExcludeGcodes": DEFAULT_EXTENDED if extended is None else extended,
        "atCommandActions": DEFAULT_AT if at is None else at,
        "g90InfluencesExtruder": g90e,
    }
    user = UserStub()
    pkg.settings = lambda: GlobalSettingsStub(values)
    pkg.current_user = user
    pkg.flask = FlaskStub
    plugin = pkg.ExcludeRegionPlugin()
    plugin._identifier = "excluderegion"
    plugin._plugin_version = "verif"
    plugin._logger = NullLogger()
    plugin._plugin_manager = Recorder()
    plugin._settings = SettingsStub(values)
    plugin.initialize()
    plugin._plugin_manager.messages[:] = []
    plugin._verif_values = values
    plugin._verif_user = user
    return plugin


def events(w):
    import octoprint.events
    return octoprint.events.Events


FILE_A = {"name": "a.gcode", "path": "a.gcode", "origin": "local", "size": 1, "owner": "u", "user": "u"}
FILE_B = {"name": "b.gcode", "path": "sub/b.gcode", "origin": "local", "size": 2, "owner": "u", "user": "u"}
FILE_SD = {"name": "c.gco", "path": "c.gco", "origin": "sdcard", "size": 3, "owner": "u", "user": "u"}


def payload_for(event_name, file=None):
    """Payload OctoPrint delivers with an event (shape as documented for OctoPrint 1.4+)."""
    f = dict(file or FILE_A)
    if event_name in ("PRINT_STARTED", "PRINT_PAUSED", "PRINT_RESUMED", "FILE_SELECTED"):
        return f
    if event_name == "PRINT_DONE":
        return dict(f, time=12.5)
    if event_name in ("PRINT_FAILED",):
        return dict(f, time=3.0, reason="cancelled")
    if event_name in ("PRINT_CANCELLING",):
        return dict(f, firmwareError=None)
    if event_name in ("PRINT_CANCELLED",):
        return dict(f, time=3.0, position={})
    if event_name == "ERROR":
        return {"error": "Printer halted"}
    if event_name == "SETTINGS_UPDATED":
        return {"config_hash": "x", "effective_hash": "y"}
    return {}


def fire(plugin, event_name, file=None):
    import octoprint.events
    plugin.on_event(getattr(octoprint.events.Events, event_name), payload_for(event_name, file))
