"""C08 -- exclusion decisions are invariant under re-encoding of the same tool path.

Scheme REL (relational lockstep): one abstract tool path of K steps (native targets, all symbolic) is rendered
twice and run through two instances of the real code inside the same path:
  run A: millimetres, absolute coordinates;
  run B: the same path re-encoded from a switch position s on: (inch) G20 and values/25.4, (rel) G91 and
         differences, (g92) a G92 X Y Z re-basing and shifted values, (shift) path AND regions translated by t.
Obligations after every step: both runs take the same decision (forward / suppress / synthesise, episode open
or not); after the last step the two printers are at the same physical place (shift: displaced by t).
"""
from fractions import Fraction

from symx import alg
from harness.base import Scenario
from harness import pipeline as pl

PROPERTY = "C08"

STEPS = ["XY", "XYZ", "XYE", "X", "Z", "E", "HOME"]
KF_REL_EXIT = "exit_while_xyz_relative"
KF_G92 = "g92_xyz_rebase"
KF_ENTER_Z = "entering_move_has_z"


def kind(rec):
    r = rec.result
    if r is None or (isinstance(r, list) and r == [rec.text]):
        return "forward"
    if r == (None,):
        return "suppress"
    return "synth-%d" % len(r)


def scen(w, enc="inch", K=3, kinds="r"):
    a = pl.Pipe(w, False)
    b = pl.Pipe(w, False)
    kind_r = "rect" if (kinds == "r" or w.choose(2, "rkind") == 0) else "disc"
    spec = pl.fresh_region(w, kind_r, "r0")
    a.add_region(spec)
    tx = ty = 0
    if enc == "shift":
        tx, ty = w.real("t_x"), w.real("t_y")
        ps = spec.params
        if kind_r == "rect":
            sp = pl.RegionSpec("rect", (ps[0] + tx, ps[1] + ty, ps[2] + tx, ps[3] + ty), "r0")
        else:
            sp = pl.RegionSpec("disc", (ps[0] + tx, ps[1] + ty, ps[2]), "r0")
        b.add_region(sp)
    else:
        b.add_region(spec)
    a.feed("G28", catch=False)
    b.feed("G28", catch=False)
    s = w.choose(K, "switch") if enc != "shift" else 0
    u = Fraction(254, 10) if w.symbolic else 25.4
    cur = {"X": 0, "Y": 0, "Z": 0, "E": 0}         # native position of the abstract path (run A's frame)
    shift = {"X": 0, "Y": 0, "Z": 0}
    switched = False
    for k in range(K):
        if k == s and enc != "shift":
            switched = True
            if enc == "inch":
                b.feed("G20", catch=False)
            elif enc == "rel":
                b.feed("G91", catch=False)
            elif enc == "g92":
                if KF_G92 in w.excluded:
                    pl.skip(w, KF_G92)
                new = {ax: w.real("g92_%s" % ax) for ax in "XYZ"}
                b.feed("G92 X%s Y%s Z%s" % tuple(w.key(new[ax]) for ax in "XYZ"), catch=False)
                shift = {ax: cur[ax] - new[ax] for ax in "XYZ"}
        st = STEPS[w.choose(len(STEPS), "step")]
        w.cover("step-" + st)
        if st == "HOME":
            if enc == "shift":
                pl.skip(w, "homing is not translated")
            ra = a.feed("G28 X Y", catch=False)
            rb = b.feed("G28 X Y", catch=False)
            cur["X"] = cur["Y"] = 0
            if enc == "g92" and switched:
                shift["X"] = shift["Y"] = 0
            continue
        first_shift = (enc == "shift" and k == 0)
        if first_shift and not st.startswith("XY"):
            # homing is not translated: the translated path starts with a positioning move onto the path
            pl.skip(w, "shift: first step must position X and Y")
        axes = [c for c in st]
        tgt = {ax: w.real("s%d_%s" % (k, ax)) for ax in axes}
        wa, wb = [], []
        for ax in axes:
            v = tgt[ax]
            wa.append(ax + w.key(v))
            if ax == "E":
                vb = v / u if (enc == "inch" and switched) else v
            elif enc == "shift":
                vb = v + (tx if ax == "X" else ty if ax == "Y" else 0)
            elif not switched:
                vb = v
            elif enc == "inch":
                vb = v / u
            elif enc == "rel":
                vb = v - cur[ax]
            else:
                vb = v - shift[ax]
            wb.append(ax + w.key(vb))
        ta, tb = "G1 " + " ".join(wa), "G1 " + " ".join(wb)
        ra = a.begin(ta)
        leaving = alg.and_(ra.ep_before, alg.not_(ra.dest_inside)) if ra.is_move else False
        entering = alg.and_(alg.not_(ra.ep_before), ra.dest_inside) if ra.is_move else False
        if enc == "rel" and switched and ra.is_move and KF_REL_EXIT in w.excluded:
            w.assume(alg.not_(leaving))
        if first_shift:
            w.assume(alg.not_(ra.dest_inside))
        if "Z" in axes and KF_ENTER_Z in w.excluded:
            w.assume(alg.not_(entering))
        ra = a.finish()
        rb = b.begin(tb)
        rb = b.finish()
        for ax in axes:
            cur[ax] = tgt[ax]
        if ra.raised is not None or rb.raised is not None:
            w.fail("handler-raised", "%r / %r raised %r %r" % (ta, tb, ra.raised, rb.raised))
            return
        desc = "encoding=%s switch=%d ; A %r -> %r ; B %r -> %r" % (enc, s, a.program, ra.result, b.program, rb.result)
        same = (kind(ra) == kind(rb)) and (ra.excluding_after == rb.excluding_after)
        if not w.check(same, "same-decision-in-both-encodings", desc):
            return
        if ra.excluding_after:
            w.cover("episode-open")
        if ra.excluding_before and not ra.excluding_after:
            w.cover("episode-left")
    pa_, pb_ = a.P, b.P
    final = alg.and_(alg.eq(pb_.x, pa_.x + tx), alg.eq(pb_.y, pa_.y + ty), alg.eq(pb_.z, pa_.z))
    if w.check(final, "same-physical-end-position",
               "encoding=%s switch=%d ; A %r sent %r ; B %r sent %r" % (enc, s, a.program, a.sent, b.program, b.sent)) is False:
        return
    # the extruder is a physical axis as well: the filament ends up at the same place in both encodings
    w.check(alg.eq(pb_.fil, pa_.fil), "same-physical-filament-position",
            "encoding=%s switch=%d ; A %r sent %r ; B %r sent %r" % (enc, s, a.program, a.sent, b.program, b.sent))


SCENARIOS = {e: scen for e in ("inch", "rel", "g92", "shift")}

META = {
    "assumptions": ["floats as reals: no margin to region borders is needed (the replay uses IEEE floats)",
                    "abstract path vocabulary: G1 moves with X/Y/Z/E targets and E-only steps (no arcs); one region",
                    "absolute extrusion"],
    "outside_claim": ["paths longer than K", "arcs", "switching encodings more than once"],
}


def plan(tier):
    K = 3       # (K=4 was planned for the thorough tier; it did not complete within the time available and is outside
    #             the claim: the thorough tier widens the region kinds instead)
    out = []
    for enc in ("inch", "rel", "g92", "shift"):
        out.append(Scenario(enc, scen, params={"enc": enc, "K": K, "kinds": "r" if (tier == "quick" and enc != "shift") else "rd"},
                            cover=["step-" + s for s in STEPS] + (["episode-open", "episode-left"] if enc != "g92" else []),
                            bounds={"K": K, "encoding": enc, "switch position": "0..K-1"},
                            excludable=[KF_REL_EXIT, KF_G92, KF_ENTER_Z]))
    return out
