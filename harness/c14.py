"""C14 -- @-commands switch exclusion off and on correctly.

Scheme BSR on the shared pipeline with @-command steps interleaved with moves (absolute and relative,
single-axis).  Oracle: `enabled` changes only on a command that matches a configured action while the comm
layer is not streaming to SD; a disable closes an open episode at once.
Obligations:
  (1) while disabled every command is forwarded unchanged;
  (2) a disable that arrives mid-episode makes the exit sequence appear on sendCommand, after which the printer is
      re-synchronised with the file (X, Y, Z, modes, units) -- same obligation as leaving a region (C03);
  (3) after re-enabling, the filter's decision on every move equals the oracle's decision computed from the file's
      true position (position keeps being tracked while disabled);
  (4) a command matching no action, or arriving while streaming, sends nothing and changes nothing.
"""
from symx import alg
from harness.base import Scenario
from harness import pipeline as pl, plugin_util as pu
from harness.pipeline import S

PROPERTY = "C14"

AT = {
    "OFF": ("ExcludeRegion", "off"), "DISABLE": ("ExcludeRegion", "disable now"), "ON": ("ExcludeRegion", "on"),
    "ENABLE": ("ExcludeRegion", " enable"), "BOGUS": ("ExcludeRegion", "offline"), "OTHER": ("Other", "off"),
    "C_OFF": ("OBJECT", "stop 3"), "C_ON": ("OBJECT", "start 3"), "C_NOMATCH": ("OBJECT", "info restart=2 stopped"),
}
EFFECT = {"OFF": False, "DISABLE": False, "ON": True, "ENABLE": True, "C_OFF": False, "C_ON": True}

ALPHABET = {
    "at": ["OFF", "ON", "BOGUS", "OTHER", "DISABLE", "ENABLE"],
    "at4": ["OFF", "ON", "BOGUS", "OTHER"],
    "rel": [S("G91")],
    "at-custom": ["C_OFF", "C_ON", "C_NOMATCH", "OFF"],
    "off": ["OFF", "C_OFF"],
    "on": ["ON", "ENABLE"],
    "moves": [S("G1", "X# Y#"), S("G0", "X#"), S("G1", "Y#"), S("G1", "Z#"), S("G1", "X# Y# E#"), S("G91"), S("G90")],
    "enter": [S("G1", "X# Y#"), S("G1", "X# Y# E#")],
    "any": [S("G1", "X# Y#"), S("G0", "X#"), S("G1", "Y# E#"), S("G91"), S("G1", "Z#")],
}
CUSTOM_ACTIONS = [("OBJECT", "stop", "disable_exclusion"), ("OBJECT", "start", "enable_exclusion")]

KF_REL_EXIT = "exit_while_xyz_relative"
KF_ENTER_Z = "entering_move_has_z"
KF_SYNTH_E_REL = "synth_e_while_e_relative"


def scen(w, template="enter,off,moves,on,moves", kinds="r", late_region=0):
    names = template.split(",")
    # through the real plugin hooks (handleGcodeQueuing / handleAtCommandQueuing), print active
    at_cfg = list(pu.DEFAULT_AT) + [{"command": c, "parameterPattern": p, "action": a, "description": ""}
                                    for c, p, a in CUSTOM_ACTIONS]
    plugin = pu.make_plugin(w, at=at_cfg)
    pu.fire(plugin, "PRINT_STARTED")
    pipe = pl.Pipe(w, plugin=plugin)
    kind = "rect" if (kinds == "r" or w.choose(2, "rkind") == 0) else "disc"
    spec0 = pl.fresh_region(w, kind, "r0")
    late = w.choose(len(names), "region-added-before-step") if late_region else 0
    if late == 0:
        pipe.add_region(spec0)
    pipe.prologue()
    V, P = pipe.V, pipe.P
    entered_with_z = False
    for k, an in enumerate(names):
        if late and k == late:
            pipe.add_region(spec0)
            w.cover("region-added-late")
        items = ALPHABET[an]
        item = items[w.choose(len(items), "item")]
        if isinstance(item, str):
            # ---- an @-command step ---------------------------------------------------------------
            cmd, params = AT[item]
            streaming = w.flag("streaming")
            comm = pu.CommStub(streaming)
            w.cover("at-" + item)
            effect = None if streaming else EFFECT.get(item)
            was_enabled = pipe.enabled
            was_excluding = pipe.state.excluding
            ep_before = pipe.ep
            pipe.program.append("@%s %s%s" % (cmd, params, " [streaming]" if streaming else ""))
            w.note("program", list(pipe.program))
            if effect is False and was_enabled and not V.abs_xyz and KF_REL_EXIT in w.excluded:
                w.assume(alg.not_(ep_before))
            if effect is False and was_enabled and entered_with_z and KF_ENTER_Z in w.excluded:
                w.assume(alg.not_(ep_before))
            try:
                plugin.handleAtCommandQueuing(comm, "queuing", cmd, params)
            except Exception as ex:
                w.fail("at-command-raises", "@%s %s raised %r" % (cmd, params, ex))
                return
            desc = "program %r -> sendCommand %r" % (pipe.program, comm.sent)
            if effect is None:
                same = (pipe.state.excluding == was_excluding and pipe.state.isExclusionEnabled() == was_enabled)
                if not w.check(len(comm.sent) == 0 and same, "non-matching-or-streaming-changes-nothing", desc):
                    return
                continue
            pipe.enabled = effect
            if effect is False and was_enabled:
                pipe.ep = False
                for c in comm.sent:
                    P.execute(c)
                if was_excluding:
                    w.cover("disable-mid-episode")
                sync = alg.and_(alg.eq(P.x, V.x), alg.eq(P.y, V.y), alg.eq(P.z, V.z),
                                P.abs_xyz == V.abs_xyz, P.u == V.u)
                if not w.check(alg.implies(ep_before, sync), "disable-mid-episode-resynchronises", desc):
                    return
                if not w.check(alg.implies(alg.not_(ep_before), len(comm.sent) == 0),
                               "disable-outside-episode-sends-nothing", desc):
                    return
                if not w.check(pipe.state.excluding is False, "disable-closes-episode-at-once", desc):
                    return
            else:
                if not w.check(len(comm.sent) == 0, "enable-sends-nothing", desc):
                    return
            continue
        # ---- a G-code step -----------------------------------------------------------------------
        shape = item
        w.cover("shape-" + shape.tag)
        text, _ = pl.render(w, shape, pipe.k)
        rec = pipe.begin(text)
        leaving = alg.and_(rec.ep_before, alg.not_(rec.dest_inside)) if (rec.is_move and pipe.enabled) else False
        if rec.is_move and not V.abs_xyz and KF_REL_EXIT in w.excluded:
            w.assume(alg.not_(leaving))
        rec = pipe.finish()
        if rec.raised is not None:
            w.fail("handler-raised", "%s raised %r" % (text, rec.raised))
            return
        desc = "program %r ; step %r -> %r" % (pipe.program, text, rec.result)
        if not pipe.enabled:
            w.cover("move-while-disabled")
            ok = rec.result is None or (isinstance(rec.result, list) and rec.result == [text])
            if not w.check(ok, "forwarded-unchanged-while-disabled", desc):
                return
        elif rec.is_move:
            if any(l == "Z" for l, _ in shape.words) and rec.excluding_after and not rec.excluding_before:
                entered_with_z = True
            if not w.check(alg.iff(rec.ep_after, rec.excluding_after), "decision-from-true-position", desc):
                return
            if rec.excluding_after:
                w.cover("episode-entered")


SCENARIOS = {}

META = {
    "assumptions": [
        "floats as reals; planArc stubbed (no arcs in this alphabet); logger stubbed; comm layer is a stub with "
        "isStreaming() a nondeterministic boolean and sendCommand recorded",
        "action configuration: the two default ExcludeRegion patterns plus a custom unanchored pair for '@OBJECT'",
    ],
    "outside_claim": ["programs longer than the templates", "more than one region"],
}


def plan(tier):
    out = []

    def add(name, template, kinds="r", late=0):
        names = template.split(",")
        SCENARIOS[name] = scen
        cov = []
        for n in set(names):
            for it in ALPHABET[n]:
                cov.append(("at-" + it) if isinstance(it, str) else ("shape-" + it.tag))
        out.append(Scenario(name, scen, params={"template": template, "kinds": kinds, "late_region": late},
                            cover=sorted(set(cov)) + (["region-added-late"] if late else []),
                            bounds={"template": names},
                            excludable=[KF_REL_EXIT, KF_ENTER_Z, KF_SYNTH_E_REL]))
    add("mid-episode", "enter,at,any")
    add("relative-mid-episode", "rel,enter,off,any")
    add("off-move-on-move", "off,moves,on,any", "rd")
    add("custom", "enter,at-custom,any")
    add("at-at", "at4,any,at4,any")
    add("late-region", "off,any,any", late=1)
    for st_ in ("disabled", "outside", "inside"):
        cov = ["start-" + st_] + ["at-" + a for a in IND_AT] + ["shape-" + s.tag for s in IND_SHAPES]
        out.append(Scenario("ind-" + st_, scen_ind, params={"start": st_, "kinds": "r"}, cover=cov,
                            bounds={"K": "1 step from an arbitrary invariant state (all history lengths)",
                                    "items": IND_AT + [s.tag for s in IND_SHAPES]},
                            excludable=[KF_REL_EXIT, KF_ENTER_Z, KF_SYNTH_E_REL]))
    if tier == "thorough":
        add("off-moves-on-move", "off,moves,moves,on,any", "rd")
        add("at6-at6", "at,any,at,any")
        add("enter-off-moves-on-move", "enter,off,moves,on,any", "rd")
        add("at-custom-2", "at-custom,any,at-custom,any")
    return out


# ---- inductive step -------------------------------------------------------------------------------------------------
IND_SHAPES = [S("G1", "X# Y#"), S("G0", "X#"), S("G1", "Y# E#"), S("G1", "Z#"), S("G1", "X# Y# Z# E#"), S("G1", "E#"),
              S("G91"), S("G90"), S("G20"), S("G21"), S("M105"), S("G10", ""), S("G11", "")]
IND_AT = ["OFF", "ON", "BOGUS", "OTHER", "C_OFF", "C_ON", "C_NOMATCH"]


def scen_ind(w, start="disabled", kinds="r"):
    """ONE step (a G-code command or an @-command) from an arbitrary invariant state:
         start = "disabled": exclusion disabled, not excluding;  "outside": enabled, outside an episode;
                 "inside": enabled, inside an episode (see harness/inductive.py for the coupling invariant).
    Obligations: the step obligations of C14 and the invariant afterwards (tracked frame = file's frame in every
    state -- position keeps being tracked while disabled)."""
    at_cfg = list(pu.DEFAULT_AT) + [{"command": c, "parameterPattern": p, "action": a, "description": ""}
                                    for c, p, a in CUSTOM_ACTIONS]
    plugin = pu.make_plugin(w, at=at_cfg)
    pu.fire(plugin, "PRINT_STARTED")
    pipe = pl.Pipe(w, plugin=plugin)
    kind = "rect" if (kinds == "r" or w.choose(2, "rkind") == 0) else "disc"
    pipe.add_region(pl.fresh_region(w, kind, "r0"))
    if start == "inside":
        pipe.havoc_excluding()
    else:
        pipe.havoc_not_excluding()
    V, P, st = pipe.V, pipe.P, pipe.state
    if start == "disabled":
        st._exclusionEnabled = False
        pipe.enabled = False
    w.cover("start-" + start)
    nitems = len(IND_SHAPES) + len(IND_AT)
    sel = w.choose(nitems, "item")
    pz0 = P.z
    if sel >= len(IND_SHAPES):
        item = IND_AT[sel - len(IND_SHAPES)]
        cmd, params = AT[item]
        streaming = w.flag("streaming")
        comm = pu.CommStub(streaming)
        w.cover("at-" + item)
        effect = None if streaming else EFFECT.get(item)
        was_enabled, was_excluding, ep_before = pipe.enabled, st.excluding, pipe.ep
        if effect is False and was_enabled and not V.abs_xyz and KF_REL_EXIT in w.excluded:
            w.assume(alg.not_(ep_before))
        plugin.handleAtCommandQueuing(comm, "queuing", cmd, params)
        desc = "inductive step from state %s: @%s %s%s -> sendCommand %r" % (start, cmd, params,
                                                                            " [streaming]" if streaming else "", comm.sent)
        if effect is None:
            same = (st.excluding == was_excluding and st.isExclusionEnabled() == was_enabled)
            if not w.check(len(comm.sent) == 0 and same, "non-matching-or-streaming-changes-nothing", desc):
                return
        else:
            pipe.enabled = effect
            if effect is False and was_enabled:
                pipe.ep = False
                for c in comm.sent:
                    P.execute(c)
                sync = alg.and_(alg.eq(P.x, V.x), alg.eq(P.y, V.y), alg.eq(P.z, V.z), P.abs_xyz == V.abs_xyz, P.u == V.u)
                if not w.check(alg.implies(ep_before, sync), "disable-mid-episode-resynchronises", desc):
                    return
                if not w.check(st.excluding is False, "disable-closes-episode-at-once", desc):
                    return
            elif not w.check(len(comm.sent) == 0, "enable-or-repeated-disable-sends-nothing", desc):
                return
        if not w.check(st.isExclusionEnabled() == pipe.enabled, "enabled-flag-follows-effective-commands", desc):
            return
    else:
        shape = IND_SHAPES[sel]
        w.cover("shape-" + shape.tag)
        text, _ = pl.render(w, shape, 0)
        rec = pipe.begin(text)
        leaving = alg.and_(rec.ep_before, alg.not_(rec.dest_inside)) if (rec.is_move and pipe.enabled) else False
        if rec.is_move and not V.abs_xyz and KF_REL_EXIT in w.excluded:
            w.assume(alg.not_(leaving))
        rec = pipe.finish()
        if rec.raised is not None:
            w.fail("handler-raised", "%s raised %r" % (text, rec.raised))
            return
        desc = "inductive step from state %s: %r -> %r" % (start, text, rec.result)
        if not pipe.enabled:
            ok = rec.result is None or (isinstance(rec.result, list) and rec.result == [text])
            if not w.check(ok, "forwarded-unchanged-while-disabled", desc):
                return
        elif rec.is_move:
            if not w.check(alg.iff(rec.ep_after, rec.excluding_after), "decision-from-true-position", desc):
                return
    # ---- invariant afterwards: the tracked frame equals the file's frame in EVERY state
    inv = [pipe.tracked_equals_file(include_e=True), (P.abs_xyz == V.abs_xyz) and (P.u == V.u)]
    if not st.excluding:
        inv += [alg.eq(P.x, V.x), alg.eq(P.y, V.y)]
    w.check(alg.and_(*inv), "invariant-re-established", "inductive step from state %s (item %d)" % (start, sel))


for _st in ("disabled", "outside", "inside"):
    SCENARIOS["ind-" + _st] = scen_ind


plan("thorough")
