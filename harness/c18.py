"""C18 -- parser is lossless and its normalisation is stable.

The real GcodeParser (parse / parseLines / _gcodeMatch / _updateParameters / lineNumber / stringify / commandString /
fullText / validate / computeChecksum / parameterItems) is executed on SYMBOLIC strings: every free character is a
solver variable over the G-code alphabet; the module's compiled patterns are replaced by a backtracking model of
`re` built from their own pattern strings (validated against the real `re` on every run).
Obligations:
  (a) iterating parseLines(s) consumes len(s) characters and the concatenated fullText equals s, character by
      character (one parser instance, so stale per-line state shows);
  (b) for every parsed line with a code: re-parsing its commandString gives the same gcode, subCode,
      list(parameterItems()) and commandString;
  (c) after assigning a line number, parse(str(p)).validate() does not raise (checksum bytes as 8-bit vectors).
"""
from symx import alg
from harness.base import Scenario

PROPERTY = "C18"
KF_LEADING_WS = "render_with_leading_whitespace"

# G-code alphabet: printable ASCII, CR, LF, TAB and one non-ASCII representative (e-acute)
ALPHA = [(9, 10), (13, 13), (32, 126), (0xE9, 0xE9)]
ASCII = [(9, 10), (13, 13), (32, 126)]


def _install(w):
    if w.symbolic:
        from symx import regex_model
        regex_model.install(("GcodeParser",))


def s_eq(w, a, b):
    """string equality as a condition (no forking)"""
    if w.symbolic:
        from symx.strings import SymStr
        from symx.values import _mk_bool
        if a is None or b is None:
            return a is None and b is None
        if isinstance(a, (str, SymStr)) and isinstance(b, (str, SymStr)):
            return _mk_bool(SymStr.of(a).eq_term(b))
        return False
    return a == b


def v_eq(w, a, b):
    """equality of parsed values (None / int / float / str), as a condition"""
    if a is None or b is None:
        return a is None and b is None
    if w.symbolic:
        from symx.strings import SymStr
        if isinstance(a, (str, SymStr)) or isinstance(b, (str, SymStr)):
            return s_eq(w, a, b)
        return a == b
    return a == b


def slen(x):
    return len(x)


def free_text(w, n, alpha, tag="c"):
    return w.text([w.char("%s%d" % (tag, i), alpha) for i in range(n)])


def check_lossless(w, GP, s, desc):
    p = GP()
    pieces = []
    nlines = 0
    try:
        for line in p.parseLines(s):
            pieces.append(line.fullText)
            nlines += 1
            if line.gcode is not None:
                # (b) on the SAME parser instance: state carried over from earlier lines must not leak into
                # the normalised command of this line
                cs = line.commandString
                q = GP().parse(cs)
                okb = alg.and_(v_eq(w, q.gcode, line.gcode), v_eq(w, q.subCode, line.subCode),
                               s_eq(w, q.commandString, cs))
                w.check(okb, "normalisation-stable", "%s: line %d of a multi-line text" % (desc, nlines))
            if nlines > 64:
                break
    except AssertionError as ex:
        w.fail("parse-total", "parseLines raised %r on %s" % (ex, desc))
        return None
    total = sum(slen(x) for x in pieces)
    whole = pieces[0] if pieces else ""
    for x in pieces[1:]:
        whole = whole + x
    ok = (total == slen(s)) and (slen(whole) == slen(s))
    cond = s_eq(w, whole, s) if ok else False
    w.check(cond, "lossless-concatenation", "%s: %d lines, consumed %d of %d" % (desc, nlines, total, slen(s)))
    if nlines >= 2:
        w.cover("multi-line")
    # the same parser instance is handed a new text afterwards: it must start at its beginning
    try:
        p.parse("G1 X1 ; next\n")
        ok2 = s_eq(w, p.fullText, "G1 X1 ; next\n")
    except AssertionError as ex:
        ok2 = False
    w.check(ok2, "parser-reuse-with-new-source", "%s then parse('G1 X1 ; next\\n') on the same instance" % desc)
    return nlines


def check_normalisation(w, GP, line_text, desc, with_checksum=True):
    """(b) and (c) for one line."""
    p = GP()
    try:
        p.parse(line_text)
    except AssertionError as ex:
        w.fail("parse-total", "parse raised %r on %s" % (ex, desc))
        return
    if p.gcode is None:
        return
    w.cover("line-with-code")
    cs = p.commandString
    items = list(p.parameterItems())
    q = GP().parse(cs)
    qitems = list(q.parameterItems())
    conds = [v_eq(w, q.gcode, p.gcode), v_eq(w, q.subCode, p.subCode), s_eq(w, q.commandString, cs),
             len(items) == len(qitems)]
    if len(items) == len(qitems):
        for (n1, v1), (n2, v2) in zip(items, qitems):
            conds.append(s_eq(w, n1, n2))
            conds.append(v_eq(w, v1, v2))
    w.check(alg.and_(*conds), "normalisation-stable", desc)
    if not with_checksum:
        return
    if p.subCode is not None or p.parameters is not None:
        w.cover("line-with-parameters-or-subcode")
    if KF_LEADING_WS in w.excluded and len(p.leadingWhitespace) > 0:
        return      # known finding: checksum of a rendered line ignores its leading blanks
    p.lineNumber = [5, 0][w.choose(2, "lineno")]
    rendered = p.stringify()     # what str(p) returns
    r = GP().parse(rendered)
    try:
        r.validate()
        ok = True
        err = None
    except ValueError as ex:
        ok = False
        err = ex
    w.check(ok, "rendered-line-validates-against-own-checksum", "%s -> validate raised %r" % (desc, err))


def scen_free(w, N=4, mode="lossless"):
    _install(w)
    GP = w.env.GcodeParser
    s = free_text(w, N, ALPHA if mode == "lossless" else ASCII)
    w.note("text", None)
    if mode == "lossless":
        check_lossless(w, GP, s, "free text of %d characters" % N)
    else:
        check_normalisation(w, GP, s, "free line of %d characters" % N)


PROFILES = [
    # (indent, lineno, subcode, checksum, comment)
    (0, 0, 0, 0, 0), (0, 1, 0, 1, 0), (1, 0, 1, 0, 1), (0, 0, 0, 1, 1), (1, 1, 1, 1, 1), (0, 0, 1, 0, 0),
    (0, 1, 0, 2, 0),        # checksum value 2: "* d" with a blank after the asterisk
]


def template_line(w, ln, free, alpha, profile, kind, eol):
    indent, lineno, subcode, checksum, comment = profile
    t = []
    if indent:
        t.append(" ")
    if lineno:
        t += ["N", w.char("l%d_n" % ln, [(48, 57)]), " "]
    t.append(["G", "M", "T"][kind])
    t.append(w.char("l%d_c" % ln, [(48, 57)]))
    if kind < 2 and subcode:
        t += [".", w.char("l%d_s" % ln, [(48, 57)])]
    for i in range(free):
        t.append(w.char("l%d_f%d" % (ln, i), alpha))
    if checksum == 2:
        t += ["*", " ", w.char("l%d_k" % ln, [(48, 57)])]
    elif checksum:
        t += ["*", w.char("l%d_k" % ln, [(48, 57)])]
    if comment:
        t += [" ;", w.char("l%d_m" % ln, alpha)]
    t.append(eol)
    return w.text(t)


def scen_template(w, free=2, lines=2, mode="lossless", full=0):
    """Realistic lengths with few free characters: [ws][N d][code][.d][ free ][*d][ ;c] EOL, 1..3 lines; the
    presence of the optional parts is drawn per line from six profiles."""
    _install(w)
    GP = w.env.GcodeParser
    alpha = ALPHA if mode == "lossless" else ASCII
    eol = ["\n", "\r\n", "\r", ""][w.choose(4 if lines == 1 else 3, "eol")]
    parts = []
    for ln in range(lines):
        if ln == 0 or full:
            profile = PROFILES[w.choose(len(PROFILES), "profile")]
            kind = w.choose(3, "code")
        else:
            # later lines: bare or with line number + checksum (what matters for state carried between lines)
            profile = PROFILES[w.choose(2, "profile-later")]
            kind = w.choose(2, "code-later") * 2
        parts.append(template_line(w, ln, free, alpha, profile, kind, eol))
        w.cover("profile-%d" % PROFILES.index(profile))
    if mode == "lossless":
        s = parts[0]
        for x in parts[1:]:
            s = s + x
        check_lossless(w, GP, s, "%d template lines" % lines)
    else:
        check_normalisation(w, GP, parts[0], "template line")


def validate():
    from symx import validate as v, loader
    gp = loader.mod("GcodeParser")
    pats = [(k, getattr(gp, k).pattern) for k in ("REGEX_GCODE_LINE", "REGEX_GCODE_CODE", "REGEX_PARAMETERS",
                                                   "REGEX_PARAMETER_OR_STR")]
    return v.validate_regex(pats, 3)


SCENARIOS = {"free-lossless": scen_free, "free-normal": scen_free, "tmpl-lossless": scen_template,
             "tmpl-normal": scen_template}

META = {
    "assumptions": [
        "the module-level compiled regexes are replaced by a backtracking model of `re` built from their own pattern "
        "strings; the model is validated against the real `re` on every run (symx/validate.py: all strings of length <= 3 over "
        "one representative per character class, two offsets, plus the literals of the repository's parser tests)",
        "alphabet: TAB, LF, CR, printable ASCII and one non-ASCII representative (U+00E9); checksum obligations: ASCII only",
        "int()/str()/float() on symbolic digit strings by exact models (symx/strings.py)",
    ],
    "outside_claim": ["strings with more free characters than the bound", "non-ASCII digits (\\d matches them, int() accepts them)",
                      "NUL and other control characters", "utf-8 multi-byte checksum bytes"],
}


def plan(tier):
    n1, n2 = (4, 3) if tier == "quick" else (6, 4)
    return [
        Scenario("free-lossless", scen_free, params={"N": n1, "mode": "lossless"}, cover=[],
                 bounds={"free characters": n1}),
        Scenario("free-normal", scen_free, params={"N": n2, "mode": "normal"}, cover=["line-with-code"],
                 bounds={"free characters": n2}, excludable=[KF_LEADING_WS]),
        Scenario("tmpl-lossless", scen_template, params={"free": 1, "lines": 2, "mode": "lossless",
                                                          "full": 0 if tier == "quick" else 1},
                 cover=["multi-line"], bounds={"lines": 2, "free characters per line": "1 (+ digits, comment char)"}),
        Scenario("tmpl-normal", scen_template, params={"free": 2, "lines": 1, "mode": "normal"},
                 cover=["line-with-code", "line-with-parameters-or-subcode"], excludable=[KF_LEADING_WS],
                 bounds={"lines": 1, "free characters": 2}),   # (3 free characters: > 35 min, not finished; outside both tiers)
    ]
