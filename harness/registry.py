"""Shared scenario for C12 (area never shrinks) and C13 (registry integrity, notification).

One inductive step over the region registry of the real plugin:
  arbitrary registry (R regions of either type, arbitrary geometry, distinct ids),
  arbitrary lifecycle/settings flags, then ONE API request or event with arbitrary content.
Observations are taken through the public surface only: on_api_command result, on_api_get response,
send_plugin_message calls.
"""
from __future__ import annotations

from symx import alg
from harness import plugin_util as pu
from harness.c17 import in_rect, in_disc

COMMANDS = ["addExcludeRegion", "updateExcludeRegion", "deleteExcludeRegion", "bogusCommand"]
TYPES = ["RectangularRegion", "CircularRegion", "TriangularRegion"]


def _get_list(plugin):
    return list(plugin.on_api_get(None)["excluded_regions"])


def _true_list(plugin):
    """The current region list itself (anchor: ExcludeRegionState.excludedRegions), as plain data."""
    return [r.toDict() for r in plugin.state.excludedRegions]


def _member(w, d, px, py):
    if d["type"] == "RectangularRegion":
        return in_rect(w, d["x1"], d["y1"], d["x2"], d["y2"], px, py)
    if d["type"] == "CircularRegion":
        return in_disc(w, d["cx"], d["cy"], d["r"], px, py)
    return False


def _any_member(w, lst, px, py):
    if not lst:
        return False
    return alg.or_(*[_member(w, d, px, py) for d in lst])


def _same_region(a, b):
    if a["type"] != b["type"] or a["id"] != b["id"] or set(a) != set(b):
        return False
    conds = [alg.eq(a[k], b[k]) for k in sorted(a) if k not in ("type", "id")]
    return alg.and_(*conds) if conds else True


def _same_list(a, b):
    if len(a) != len(b):
        return False
    conds = [_same_region(x, y) for x, y in zip(a, b)]
    return alg.and_(*conds) if conds else True


def _is_error(res):
    return isinstance(res, tuple) and len(res) == 2 and isinstance(res[1], int) and res[1] >= 400


def api_step(w, which="C13", R=2, events=True):
    active = w.flag("active")
    may_shrink = w.flag("mayShrink")
    clear_after = w.flag("clearAfter") if events else False
    plugin = pu.make_plugin(w, clear_after=clear_after, may_shrink=may_shrink)
    Events = pu.events(w)
    gen = [0]
    collide = [False]

    def fresh_uuid():
        gen[0] += 1
        if collide[0] and existing_ids:
            return existing_ids[0]
        return "gen-%d" % gen[0]
    existing_ids = []
    pu.set_uuid(w, fresh_uuid)

    # ---- arbitrary registry -----------------------------------------------------------------
    n = w.choose(R + 1, "nregions")
    for i in range(n):
        rid = "r%d" % i
        if i == 0:
            # ids are client supplied: also an empty string and 0 (both falsy) are legal ids
            rid = ["r0", "", 0][w.choose(3, "id0")]
        if w.choose(2, "rkind%d" % i) == 0:
            reg = w.env.RectangularRegion(x1=w.real("r%d_xa" % i), y1=w.real("r%d_ya" % i),
                                          x2=w.real("r%d_xb" % i), y2=w.real("r%d_yb" % i), id=rid)
        else:
            rr = w.real("r%d_r" % i)
            reg = w.env.CircularRegion(cx=w.real("r%d_cx" % i), cy=w.real("r%d_cy" % i), r=rr, id=rid)
        plugin.state.addRegion(reg)
        existing_ids.append(rid)
    if active:
        pu.fire(plugin, "PRINT_STARTED")
        # things that happen during a print and must not open a loophole: pause/resume, a settings update
        pre = w.choose(4, "during-print")
        if pre == 1:
            pu.fire(plugin, "PRINT_PAUSED")
        elif pre == 2:
            pu.fire(plugin, "PRINT_PAUSED")
            pu.fire(plugin, "PRINT_RESUMED")
        elif pre == 3:
            may_shrink = not may_shrink
            plugin._verif_values["mayShrinkRegionsWhilePrinting"] = may_shrink
            pu.fire(plugin, "SETTINGS_UPDATED")
        w.cover("during-print-%d" % pre)
    plugin._plugin_manager.messages[:] = []
    before = _true_list(plugin)
    w.check(len(set(d["id"] for d in before)) == len(before), "pre-ids-unique")

    # ---- one step -----------------------------------------------------------------------------
    nsteps = len(COMMANDS) + (3 if events else 0)
    step = w.choose(nsteps, "step")
    res = None
    is_request = step < len(COMMANDS)
    desc = None
    if is_request:
        command = COMMANDS[step]
        anon = w.flag("anonymous")
        plugin._verif_user.anonymous = anon
        idsel = w.choose(4, "idsel")     # 0: id of region 0, 1: id of last region, 2: fresh id, 3: absent
        if idsel == 0:
            rid = existing_ids[0] if existing_ids else "zz-unknown"
        elif idsel == 1:
            rid = existing_ids[-1] if existing_ids else "zz-unknown2"
        elif idsel == 2:
            rid = "new-id"
        else:
            rid = None
            collide[0] = w.flag("uuidCollides")
        data = {}
        if rid is not None:
            data["id"] = rid
        if command != "deleteExcludeRegion":
            tsel = w.choose(3, "type")
            data["type"] = TYPES[tsel]
            if tsel == 0:
                data.update(x1=w.real("q_xa"), y1=w.real("q_ya"), x2=w.real("q_xb"), y2=w.real("q_yb"))
            elif tsel == 1:
                data.update(cx=w.real("q_cx"), cy=w.real("q_cy"), r=w.real("q_r"))
        desc = "%s id=%s type=%s anon=%s active=%s mayShrink=%s n=%d" % (
            command, rid, data.get("type"), anon, active, may_shrink, n)
        w.note("request", desc)
        try:
            res = plugin.on_api_command(command, data)
        except Exception as ex:  # the API must answer, not raise
            w.fail("api-raises", "%s raised %r" % (desc, ex))
            return
    else:
        ev = ["FILE_SELECTED", "PRINT_DONE", "PRINT_CANCELLED"][step - len(COMMANDS)]
        f = [pu.FILE_A, pu.FILE_SD][w.choose(2, "file")] if ev == "FILE_SELECTED" else None
        desc = "event %s %s clearAfter=%s active=%s n=%d" % (ev, (f or {}).get("origin"), clear_after, active, n)
        w.note("request", desc)
        # a GET before the event (clients poll): a cached response must not survive the change
        _get_list(plugin)
        pu.fire(plugin, ev, f)

    after = _true_list(plugin)
    msgs = plugin._plugin_manager.messages
    error = _is_error(res)
    unchanged = _same_list(before, after)
    w.cover("step-%d" % step)
    if error:
        w.cover("refused")

    if which == "C12":
        if active and not may_shrink and is_request:
            w.cover("restricted-mode")
            px, py = w.real("px"), w.real("py")
            # any(before) => any(after), region by region; a region that is still present with
            # structurally identical geometry discharges its own implication trivially (frame)
            conds = []
            for d in before:
                if any(_same_region(d, e) is True for e in after):
                    continue
                full = alg.implies(_member(w, d, px, py), _any_member(w, after, px, py))
                # sufficient and much cheaper: the region that now carries the same id covers the old one by itself
                succ = [e for e in after if e["id"] == d["id"]]
                if succ:
                    pair = alg.implies(_member(w, d, px, py), _member(w, succ[0], px, py))
                    if w.holds(pair) is True:
                        full = pair
                conds.append(full)
            w.check(alg.and_(*conds) if conds else True, "excluded-point-stays-excluded", desc)
            if COMMANDS[step] == "deleteExcludeRegion":
                w.check(error, "delete-refused-while-printing", "%s -> %r" % (desc, res))
            if error:
                w.check(unchanged, "refused-request-changes-nothing", desc)
        else:
            w.check(True, "excluded-point-stays-excluded")
        return

    # ---- C13 ------------------------------------------------------------------------------------
    ids_after = [d["id"] for d in after]
    w.check(len(set(ids_after)) == len(ids_after), "ids-unique", "%s -> ids %s" % (desc, ids_after))
    if is_request and error:
        w.check(unchanged, "rejected-leaves-list-untouched", desc)
        w.check(len(msgs) == 0, "rejected-sends-no-notification", "%s -> %d notifications" % (desc, len(msgs)))
    changed = alg.not_(unchanged)
    if len(msgs) == 1:
        ident, payload = msgs[0]
        ok = (ident == plugin._identifier and isinstance(payload, dict) and
              payload.get("event") == "ExcludedRegionsChanged" and
              isinstance(payload.get("excluded_regions"), list))
        pay_ok = alg.and_(ok, _same_list(payload["excluded_regions"], after)) if ok else False
        w.check(alg.implies(changed, pay_ok), "change-notified-with-current-list", desc)
        w.cover("notified")
    else:
        # zero or several notifications: only allowed when the list did not change
        w.check(alg.not_(changed), "change-notified-exactly-once",
                "%s -> %d notifications for a change" % (desc, len(msgs)))
    w.check(_same_list(after, _get_list(plugin)), "get-response-equals-current-list", desc)
