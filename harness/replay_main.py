"""Replay one counterexample artefact against the pristine code (separate interpreter)."""
import json
import sys

from harness import base


def main():
    path = sys.argv[1]
    art = json.load(open(path))
    res = base.run_concrete(art["property"], art["scenario"], art.get("params", {}), art["inputs"],
                            art.get("excluded", []))
    if "-v" in sys.argv:
        print(json.dumps(res, indent=1, default=str))
    print(json.dumps(res, default=str))


if __name__ == "__main__":
    main()
