"""C17 -- region geometry is sound.

Code executed symbolically: RectangularRegion / CircularRegion constructors, containsPoint,
containsRegion (all four type pairs), ExcludeRegionState.isPointExcluded.
All parameters and the test point are unconstrained reals (no magnitude bound).
Oracles (closed sets, written from the property text):
    rectangle: min(xa,xb) <= px <= max(xa,xb) and min(ya,yb) <= py <= max(ya,yb)
    disc     : r >= 0 and (px-cx)^2 + (py-cy)^2 <= r^2
"""
from __future__ import annotations

from fractions import Fraction

from symx import alg
from harness.base import Scenario, NullLogger

PROPERTY = "C17"


def _ex(w, v):
    """Exact arithmetic in concrete mode (oracle must not round)."""
    return v if w.symbolic else Fraction(v)


def in_rect(w, xa, ya, xb, yb, px, py):
    xa, ya, xb, yb, px, py = [_ex(w, v) for v in (xa, ya, xb, yb, px, py)]
    lox, hix = alg.min_(xa, xb), alg.max_(xa, xb)
    loy, hiy = alg.min_(ya, yb), alg.max_(ya, yb)
    return alg.and_(px >= lox, px <= hix, py >= loy, py <= hiy)


def in_disc(w, cx, cy, r, px, py):
    cx, cy, r, px, py = [_ex(w, v) for v in (cx, cy, r, px, py)]
    dx, dy = px - cx, py - cy
    return alg.and_(r >= 0, dx * dx + dy * dy <= r * r)


def _mk_region(w, kind, tag, order=0):
    """Build a region of the real class from fresh inputs; returns (object, oracle(px,py))."""
    if kind == 0:
        xa, ya, xb, yb = [w.real("%s_%s" % (tag, n)) for n in ("xa", "ya", "xb", "yb")]
        corners = [(xa, ya, xb, yb), (xb, ya, xa, yb), (xa, yb, xb, ya), (xb, yb, xa, ya)][order]
        reg = w.env.RectangularRegion(x1=corners[0], y1=corners[1], x2=corners[2], y2=corners[3], id=tag)
        return reg, (lambda px, py: in_rect(w, xa, ya, xb, yb, px, py)), ("rect", xa, ya, xb, yb)
    cx, cy, r = [w.real("%s_%s" % (tag, n)) for n in ("cx", "cy", "r")]
    reg = w.env.CircularRegion(cx=cx, cy=cy, r=r, id=tag)
    return reg, (lambda px, py: in_disc(w, cx, cy, r, px, py)), ("disc", cx, cy, r)


def scen_point(w):
    """containsPoint <=> closed-set oracle, for every corner ordering, also through a copy and
    through ExcludeRegionState.isPointExcluded."""
    kind = w.choose(2, "kind")
    order = w.choose(4, "order") if kind == 0 else 0
    via = w.choose(3, "via")     # 0 direct, 1 copy constructor, 2 state.isPointExcluded
    reg, oracle, _ = _mk_region(w, kind, "a", order)
    px, py = w.real("px"), w.real("py")
    if via == 1:
        reg = type(reg)(reg)
    if via == 2:
        st = w.env.ExcludeRegionState(NullLogger())
        st.addRegion(reg)
        got = bool(st.isPointExcluded(px, py))
    else:
        got = bool(reg.containsPoint(px, py))
    w.cover("point-%s" % ("in" if got else "out"))
    w.check(alg.iff(oracle(px, py), got), "containsPoint-iff-closed-set",
            "kind=%s order=%s via=%s got=%s" % (kind, order, via, got))


def scen_contains(w, joint=1):
    """outer.containsRegion(inner) and p in inner  =>  p in outer (all four type pairs)."""
    ko = w.choose(2, "outer")
    ki = w.choose(2, "inner")
    # corner orderings: one ordering index shared by both operands (the per-ordering behaviour of
    # each class is already decided by scenario "point"; here 4 joint orderings instead of 16)
    if joint:
        oo = io = w.choose(4, "order") if (ko == 0 or ki == 0) else 0
    else:
        oo = w.choose(4, "oorder") if ko == 0 else 0
        io = w.choose(4, "iorder") if ki == 0 else 0
    outer, o_or, _ = _mk_region(w, ko, "o", oo)
    inner, i_or, _ = _mk_region(w, ki, "i", io)
    px, py = w.real("px"), w.real("py")
    got = bool(outer.containsRegion(inner))
    if got:
        w.cover("contains-true-%d%d" % (ko, ki))
        w.check(alg.implies(i_or(px, py), o_or(px, py)), "containsRegion-sound",
                "outer kind=%s inner kind=%s reported containment" % (ko, ki))
    else:
        w.cover("contains-false")
        w.check(True, "containsRegion-sound")


SCENARIOS = {"point": scen_point, "contains": scen_contains}

META = {
    "assumptions": [
        "floats are modelled as mathematical reals (rounding at ulp scale is outside the claim)",
        "math.hypot(a,b) is modelled by its contract h>=0 and h*h=a*a+b*b",
        "logger stubbed (all levels disabled)",
    ],
    "outside_claim": ["non-finite parameters (inf/nan)", "IEEE rounding on a border"],
}


def plan(tier):
    cov_c = ["contains-true-00", "contains-true-01", "contains-true-10", "contains-true-11", "contains-false"]
    return [
        Scenario("point", scen_point, cover=["point-in", "point-out"],
                 nra_mode="oneshot", bounds={"parameters": "unbounded reals", "corner orderings": 4, "access paths": 3}),
        Scenario("contains", scen_contains, params={"joint": 1 if tier == "quick" else 0}, cover=cov_c,
                 nra_mode="oneshot", bounds={"parameters": "unbounded reals", "type pairs": 4, "corner orderings": "4 joint (quick) / 4x4 (thorough)"}),
    ]
