"""C19 -- parameter extraction matches the RS274/Marlin reading.

The parameter text is a SYMBOLIC string of N free characters over {letters of both cases, digits, '+', '-', '.',
space, one other character}.  An independent reference reader (below, written from the property text) reads it as a
sequence of words `letter [blanks] [number]`, number = [sign] digits [ '.' [digits] ] | [sign] '.' digits; texts that
are not of this form are outside the property's quantifier and are skipped.  Obligations:
  (pairs)    the parser's (name, value) pairs with non-empty name equal the reference pairs, in order
             (letters compared after upper-casing, values as exact rationals of the digit characters);
  (handlers) after GcodeHandlers.handleGcode("G1 " + text) from a homed state the tracked X/Y/Z/E equal the LAST value
             the reference gives for each letter (unchanged when the letter is absent or valueless); for
             "G28 " + text exactly the axes named by the reference are homed.
"""
from symx import alg
from harness.base import Scenario, NullLogger
from harness.c18 import _install, s_eq
from harness import pipeline as pl

PROPERTY = "C19"

LETTERS = [(65, 90), (97, 122)]
DIG = [(48, 57)]
ALPHA = LETTERS + DIG + [(43, 43), (45, 45), (46, 46), (32, 32), (35, 35)]


def is_in(w, ch, ranges):
    if isinstance(ch, str):
        return any(lo <= ord(ch) <= hi for lo, hi in ranges)
    from symx.strings import char_test
    return char_test(ch, ranges)


def elems(w, s):
    return list(s) if isinstance(s, str) else list(s.e)


def digit_value(w, ch):
    if isinstance(ch, str):
        return ord(ch) - 48
    from symx.values import SymReal
    import z3
    return SymReal(z3.ToReal(ch.t - 48))


def upper_char(w, ch):
    if isinstance(ch, str):
        return ch.upper()
    from symx.strings import SymStr
    return SymStr((ch,)).upper().e[0]


def reference_read(w, s):
    """Reference reader. Returns list of (letter-char (upper), value or None) or None if the text is not a legal
    word sequence."""
    es = elems(w, s)
    n = len(es)
    i = 0
    out = []
    while i < n:
        ch = es[i]
        if is_in(w, ch, [(32, 32)]):
            i += 1
            continue
        if not is_in(w, ch, LETTERS):
            return None
        letter = upper_char(w, ch)
        i += 1
        j = i
        while j < n and is_in(w, es[j], [(32, 32)]):
            j += 1
        # try a number at j
        k = j
        sign = 1
        if k < n and is_in(w, es[k], [(43, 43), (45, 45)]):
            sign = -1 if is_in(w, es[k], [(45, 45)]) else 1
            k += 1
        ip = []
        while k < n and is_in(w, es[k], DIG):
            ip.append(es[k])
            k += 1
        fp = []
        had_point = False
        if k < n and is_in(w, es[k], [(46, 46)]):
            had_point = True
            k += 1
            while k < n and is_in(w, es[k], DIG):
                fp.append(es[k])
                k += 1
        if not ip and not fp:
            if k != j:
                return None          # a sign or a point without digits: not a legal spelling
            out.append((letter, None))      # valueless flag; following blanks are skipped by the main loop
            continue
        val = 0
        for d in ip:
            val = val * 10 + digit_value(w, d)
        scale = 1
        for d in fp:
            scale *= 10
            val = val + digit_value(w, d) / scale
        val = val * sign
        out.append((letter, val))
        i = k
        # a number must be followed by a blank, a letter or the end
        if i < n and not is_in(w, es[i], LETTERS + [(32, 32)]):
            return None
    return out


def last_value(ref, letter_code):
    """(given, value) of the last valued occurrence of the letter with code point letter_code in ref (concrete letters)."""
    val = None
    for l, v in ref:
        if v is not None and l == chr(letter_code):
            val = v
    return val


def concrete_letter(w, l, cands="XYZEF"):
    """Turn a (possibly symbolic) upper-case letter into a concrete one by forking over the letters that matter."""
    if isinstance(l, str):
        return l
    from symx.strings import char_test
    for cand in cands:
        if char_test(l, [(ord(cand), ord(cand))]):
            return cand
    return "?"


def scen(w, N=4, mode="pairs"):
    _install(w)
    s = w.text([w.char("p%d" % i, ALPHA) for i in range(N)])
    ref = reference_read(w, s)
    if ref is None:
        pl.skip(w, "not a legal word sequence")
    w.cover("legal-text")
    if any(v is not None for _, v in ref):
        w.cover("valued-word")
    if len(ref) >= 2:
        w.cover("two-words")
    desc = "parameter text of %d characters, reference reads %d words" % (N, len(ref))
    if mode == "pairs":
        GP = w.env.GcodeParser
        p = GP()
        got = [(n, v) for n, v in p.parameterItems(s) if len(n) > 0]
        ok = len(got) == len(ref)
        conds = [ok]
        if ok:
            for (gn, gv), (rl, rv) in zip(got, ref):
                conds.append(s_eq(w, gn, w.text([rl])))
                if (gv is None) != (rv is None):
                    conds.append(False)
                elif gv is not None:
                    conds.append(alg.eq(gv, rv))
        w.check(alg.and_(*conds), "parser-pairs-equal-reference-reading", desc)
        return
    # ---- handlers act on the last value given for each letter
    cref = [(concrete_letter(w, l), v) for l, v in ref]
    cref0 = cref if mode != "arc" else [(concrete_letter(w, l, "XYIJR"), v) for l, v in ref]
    state = w.env.ExcludeRegionState(NullLogger())
    h = w.env.GcodeHandlers(state, NullLogger())
    h.handleGcode("G28", "G28", None)
    if mode == "g1":
        h.handleGcode("G1 X1 Y2 Z3 E4 F5", "G1", None)
        before = {"X": 1, "Y": 2, "Z": 3, "E": 4}
        cmd = w.text(["G1 ", s]) if w.symbolic else "G1 " + s
        try:
            h.handleGcode(cmd, "G1", None)
        except Exception as ex:
            w.fail("handler-raises", "%r" % (ex,))
            return
        pos = state.position
        cur = {"X": pos.X_AXIS.current, "Y": pos.Y_AXIS.current, "Z": pos.Z_AXIS.current, "E": pos.E_AXIS.current}
        conds = []
        for ax in "XYZE":
            lv = last_value(cref, ord(ax))
            conds.append(alg.eq(cur[ax], before[ax] if lv is None else lv))
        w.check(alg.and_(*conds), "move-handler-acts-on-last-value-per-letter", desc + " ; words %r" % (
            [l for l, _ in cref],))
    elif mode == "arc":
        if any(l == "R" and v is not None for l, v in cref0):
            pl.skip(w, "radius form (C16's subject)")
        h.handleGcode("G1 X1 Y2 Z3 E4", "G1", None)
        seen = {}

        def planArc(endX, endY, i, j, clockwise):
            seen["args"] = (endX, endY, i, j)
            return [endX, endY]
        h.planArc = planArc
        cmd = w.text(["G3 ", s]) if w.symbolic else "G3 " + s
        try:
            h.handleGcode(cmd, "G3", None)
        except Exception as ex:
            w.fail("handler-raises", "%r" % (ex,))
            return
        exp = {"X": 1, "Y": 2, "I": 0, "J": 0}
        for l, v in cref0:
            if v is not None and l in exp:
                exp[l] = v
        if "args" in seen:
            ex_, ey_, i_, j_ = seen["args"]
            ok = alg.and_(alg.eq(ex_, exp["X"]), alg.eq(ey_, exp["Y"]), alg.eq(i_, exp["I"]), alg.eq(j_, exp["J"]))
            w.cover("arc-planned")
        else:
            # no arc planned: only legitimate when both centre offsets are zero (and no R word)
            hasr = any(l == "R" and v is not None for l, v in cref0)
            ok = True if hasr else alg.and_(alg.eq(exp["I"], 0), alg.eq(exp["J"], 0))
        w.check(ok, "arc-handler-acts-on-last-value-per-letter", desc + " ; words %r" % ([l for l, _ in cref0],))
    elif mode == "g1rel":
        # the SAME command text twice in relative mode: each occurrence must be applied
        h.handleGcode("G1 X1 Y2 Z3 E4", "G1", None)
        h.handleGcode("G91", "G91", None)
        cmd = w.text(["G1 ", s]) if w.symbolic else "G1 " + s
        h.handleGcode(cmd, "G1", None)
        h.handleGcode(cmd, "G1", None)
        pos = state.position
        cur = {"X": pos.X_AXIS.current, "Y": pos.Y_AXIS.current, "Z": pos.Z_AXIS.current}
        before = {"X": 1, "Y": 2, "Z": 3}
        conds = []
        for ax in "XYZ":
            lv = last_value(cref, ord(ax))
            conds.append(alg.eq(cur[ax], before[ax] if lv is None else before[ax] + 2 * lv))
        w.check(alg.and_(*conds), "repeated-identical-command-applied-each-time", desc)
    else:
        h.handleGcode("G1 X1 Y2 Z3", "G1", None)
        cmd = w.text(["G28 ", s]) if w.symbolic else "G28 " + s
        h.handleGcode(cmd, "G28", None)
        named = [l for l, _ in cref if l in "XYZ"]
        pos = state.position
        cur = {"X": pos.X_AXIS.current, "Y": pos.Y_AXIS.current, "Z": pos.Z_AXIS.current}
        before = {"X": 1, "Y": 2, "Z": 3}
        conds = []
        for ax in "XYZ":
            homed = (ax in named) or not named
            conds.append(alg.eq(cur[ax], 0 if homed else before[ax]))
        w.check(alg.and_(*conds), "home-handler-homes-named-axes", desc + " ; words %r" % (named,))


def validate():
    from harness import c18
    return c18.validate()


SCENARIOS = {"pairs": scen, "g1": scen, "g28": scen, "arc": scen, "g1rel": scen}

META = {
    "assumptions": [
        "regex patterns modelled from their own pattern strings (validated against `re` on every run); float() of matched "
        "digit text is the exact rational of its digits",
        "alphabet: A-Z, a-z, 0-9, '+', '-', '.', blank and '#'; texts that are not legal word sequences are outside the quantifier",
    ],
    "outside_claim": ["more than N characters of parameter text", "exponent spellings", "string arguments (M117 etc.)"],
}


def plan(tier):
    n1, n2 = (6, 4) if tier == "quick" else (7, 4)
    return [
        Scenario("pairs", scen, params={"N": n1, "mode": "pairs"}, cover=["legal-text", "valued-word", "two-words"],
                 bounds={"free characters": n1}),
        Scenario("g1", scen, params={"N": n2, "mode": "g1"}, cover=["legal-text", "valued-word"],
                 bounds={"free characters": n2}),
        Scenario("g28", scen, params={"N": 3, "mode": "g28"}, cover=["legal-text"], bounds={"free characters": 3}),
        Scenario("arc", scen, params={"N": 3, "mode": "arc"}, cover=["legal-text", "arc-planned"],
                 bounds={"free characters": 3}),
        Scenario("g1rel", scen, params={"N": 3, "mode": "g1rel"}, cover=["legal-text", "valued-word"],
                 bounds={"free characters": 3}),
    ]
