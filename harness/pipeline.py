"""Shared pipeline harness: real GcodeHandlers + ExcludeRegionState (+ optionally the plugin hooks)
driven by programs with concrete skeleton and symbolic numbers (DESIGN 5.2), observed by two
reference printers: V executes the unfiltered file, P executes what the filter returns.
"""
from __future__ import annotations

from symx import alg
from harness.base import NullLogger
from harness.c17 import in_rect, in_disc
from oracles.printer import Printer, MOVE_CODES
from oracles import rs274


# ---- shapes ----------------------------------------------------------------------------------------
class Shape(object):
    """code + ordered words; kind '#': symbolic number, None: valueless letter, str: literal text."""

    def __init__(self, code, words=(), tag=None):
        self.code = code
        self.words = tuple(words)
        self.tag = tag or (code + "".join(l + ("" if k == "#" else "_" if k is None else str(k).replace("#", "n"))
                                          for l, k in words))

    def __repr__(self):
        return self.tag


def S(code, spec=""):
    """S('G1','X# Y# E#')  /  S('G1','X Y#')  /  S('G10','S1')"""
    words = []
    for tok in spec.split():
        letter, rest = tok[0], tok[1:]
        words.append((letter, rest if rest in ("#", "#.", "#+", "#-") else (None if rest == "" else rest)))
    return Shape(code, words)


def render(w, shape, k):
    """Render shape at program position k; returns (text, {letter-index: value})."""
    parts = [shape.code]
    vals = []
    for i, (letter, kind) in enumerate(shape.words):
        if kind in ("#", "#.", "#+", "#-"):
            v = w.real("c%d_%s%d" % (k, letter, i))
            parts.append(letter + w.key(v, kind[1:]))
            vals.append((letter, v))
        elif kind is None:
            parts.append(letter)
            vals.append((letter, None))
        else:
            parts.append(letter + kind)
            vals.append((letter, kind))
    return " ".join(parts), vals


# ---- regions -----------------------------------------------------------------------------------------
class RegionSpec(object):
    def __init__(self, kind, params, rid):
        self.kind, self.params, self.id = kind, params, rid

    def contains(self, w, px, py):
        if self.kind == "rect":
            return in_rect(w, *(self.params + (px, py)))
        return in_disc(w, *(self.params + (px, py)))

    def build(self, env):
        if self.kind == "rect":
            xa, ya, xb, yb = self.params
            return env.RectangularRegion(x1=xa, y1=ya, x2=xb, y2=yb, id=self.id)
        cx, cy, r = self.params
        return env.CircularRegion(cx=cx, cy=cy, r=r, id=self.id)


def fresh_region(w, kind, rid):
    if kind == "rect":
        ps = tuple(w.real("%s_%s" % (rid, n)) for n in ("xa", "ya", "xb", "yb"))
    else:
        ps = tuple(w.real("%s_%s" % (rid, n)) for n in ("cx", "cy", "r"))
    return RegionSpec(kind, ps, rid)


class _PointSummary(object):
    """Callable installed as `state.isPointExcluded`: runs the real method body on all of its paths and merges
    them into one boolean.  Survives copy.deepcopy(state) by re-binding to the copied state."""

    def __init__(self, state, ctx):
        self.state, self.ctx = state, ctx

    def __call__(self, x, y):
        from symx.values import _mk_bool
        real = type(self.state).isPointExcluded
        return _mk_bool(self.ctx.summarise(real, self.state, x, y))

    def __deepcopy__(self, memo):
        return _PointSummary(memo.get(id(self.state), self.state), self.ctx)


class Skip(Exception):
    pass


def skip(w, reason):
    """Leave the current path: it belongs to a scenario class that is assumed away (known finding)
    or is outside the property's quantifier."""
    if w.symbolic:
        from symx.core import PathAbort
        raise PathAbort("skip:" + reason)
    from harness.base import Diverged
    raise Diverged(reason)


# ---- the pipe ------------------------------------------------------------------------------------------
class StepRecord(object):
    __slots__ = ("text", "code", "result", "emitted", "motions", "vm", "raised", "p_before", "v_before",
                 "ep_before", "ep_after", "is_move", "dest_inside", "excluding_before", "excluding_after")


def normalise_result(text, result):
    """OctoPrint queuing-hook protocol -> list of command strings that reach the printer."""
    if result is None:
        return [text]
    if isinstance(result, tuple):
        if len(result) >= 1 and result[0] is None:
            return []
        return [result[0]]
    if isinstance(result, list):
        out = []
        for item in result:
            if isinstance(item, tuple):
                item = item[0]
            if item is not None:
                out.append(item)
        return out
    if isinstance(result, str):
        return [result]
    raise ValueError("result violates the hook protocol: %r" % (result,))


class Pipe(object):
    def __init__(self, w, g90e=False, enter=None, exit_=None, extended=None, arc_stub=True, arc_samples=2,
                 summarise=True, track_p=True, plugin=None, fmt_fork=False):
        self.w = w
        if w.symbolic:
            from symx import values as _v
            _v.FMT_FORK[0] = fmt_fork
        env = w.env
        self.plugin = plugin
        if plugin is not None:
            # drive the real plugin hooks (handleGcodeQueuing); state/handlers are the plugin's own
            self.state = plugin.state
            self.handlers = plugin.gcodeHandlers
            g90e = plugin.state.g90InfluencesExtruder
        else:
            self.state = env.ExcludeRegionState(NullLogger())
            self.state.g90InfluencesExtruder = g90e
            self.state.enteringExcludedRegionGcode = enter
            self.state.exitingExcludedRegionGcode = exit_
            if extended:
                EG = env.ExcludedGcode
                self.state.extendedExcludeGcodes = {g: EG(g, m, "") for g, m in extended.items()}
            self.handlers = env.GcodeHandlers(self.state, NullLogger())
        self.V = Printer(w, g90e, "V")
        self.P = Printer(w, g90e, "P")
        # arc validity (non-zero centre offset) is decided by a fork so that V's state stays If-free
        self.V.decide = self.P.decide = (lambda c: bool(c))
        self.track_p = track_p
        self.regions = []
        self.ep = False          # oracle: an episode is open according to the file's true path
        self.enabled = True      # oracle: exclusion enabled
        self.k = 0
        self.steps = []
        self.program = []
        self.sent = []
        self.arc_samples = arc_samples
        self.last_arc = None
        self._arc_pre = None
        self.arc_stub = arc_stub
        if arc_stub:
            self._stub_plan_arc()
        if summarise and w.symbolic:
            self._summarise_point_test()

    # -- isPointExcluded is pure: execute its real body on all paths, hand the caller ONE SymBool
    def _summarise_point_test(self):
        self.state.isPointExcluded = _PointSummary(self.state, self.w.ctx)

    # -- planArc stub: arbitrary sample points, last one is the commanded end point (C16 decides
    #    what the real planArc returns; the pipeline properties must hold for any samples)
    def _stub_plan_arc(self):
        pipe = self

        def planArc(endX, endY, i, j, clockwise):
            pts = list(pipe._arc_pre or []) + [endX, endY]
            pipe.last_arc = pts
            return pts
        self.handlers.planArc = planArc

        def computeArcCenterOffsets(endX, endY, radius, clockwise):
            # arbitrary centre offsets (possibly (0,0): "no arc"); the real function is C16's subject
            # (the degenerate outcomes of the R form -- R=0, zero chord, |R| < half chord -- are outside
            #  the pipeline claims: the reference printer treats every R-form arc as valid)
            w = pipe.w
            i, j = w.real("c%d_ri" % pipe.k), w.real("c%d_rj" % pipe.k)
            w.assume(alg.or_(i != 0, j != 0))
            return (i, j)
        self.handlers.computeArcCenterOffsets = computeArcCenterOffsets

    # -- regions ----------------------------------------------------------------------------------
    def add_region(self, spec):
        self.regions.append(spec)
        self.state.addRegion(spec.build(self.w.env))

    def inside(self, px, py):
        if not self.regions:
            return False
        return alg.or_(*[r.contains(self.w, px, py) for r in self.regions])

    # -- feeding ------------------------------------------------------------------------------------
    def begin(self, text):
        """Phase 1: the file's meaning (V) and the oracle's view of the destination; no code under
        test runs yet, so assumptions placed after begin() precede the code they constrain."""
        w = self.w
        rec = StepRecord()
        rec.text = text
        c = rs274.read(text)
        rec.code = c.code
        rec.raised = None
        rec.ep_before = self.ep
        rec.excluding_before = self.state.excluding
        rec.p_before = self.P.snapshot() if self.track_p else None
        rec.v_before = self.V.snapshot()
        self.last_arc = None
        self._arc_pre = None
        if c.code in ("G2", "G3") and self.arc_stub:
            n = w.choose(self.arc_samples, "arcn") if self.arc_samples > 1 else 0
            self._arc_pre = [w.real("c%d_a%s%d" % (self.k, "xy"[i % 2], i // 2)) for i in range(2 * n)]
        rec.vm = self.V.execute(text)
        rec.is_move = c.code in MOVE_CODES and any(c.has(a) for a in "XYZ")
        rec.dest_inside = alg.and_(rec.vm.valid, self.dest_inside()) if rec.is_move else None
        self._cur = (rec, c)
        self.program.append(text)
        w.note("program", list(self.program))
        return rec

    def finish(self, catch=True):
        """Phase 2: run the real handler, let P execute what it returned."""
        rec, c = self._cur
        try:
            sub = None if c.sub is None else str(c.sub)
            if self.plugin is not None:
                rec.result = self.plugin.handleGcodeQueuing(None, "queuing", rec.text, None, c.code, sub)
            else:
                rec.result = self.handlers.handleGcode(rec.text, c.code, sub)
        except Exception as ex:
            if not catch:
                raise
            rec.raised = ex
            rec.result = None
            rec.emitted = []
            rec.motions = []
            rec.ep_after = self.ep
            rec.excluding_after = self.state.excluding
            self.steps.append(rec)
            self.k += 1
            return rec
        rec.emitted = normalise_result(rec.text, rec.result)
        self.sent.append(list(rec.emitted))
        self.w.note("sent_to_printer", [list(x) for x in self.sent])
        rec.motions = [self.P.execute(e) for e in rec.emitted] if self.track_p else []
        if rec.is_move and self.enabled:
            self.ep = alg.ite(rec.vm.valid, rec.dest_inside, self.ep)
        rec.ep_after = self.ep
        rec.excluding_after = self.state.excluding
        self.steps.append(rec)
        self.k += 1
        return rec

    def feed(self, text, catch=True):
        self.begin(text)
        return self.finish(catch)

    def dest_inside(self):
        """Oracle: does the destination (for arcs: any sampled point) of the last command lie in a region?"""
        conds = [self.inside(self.V.x, self.V.y)]
        if self._arc_pre:
            pts = self._arc_pre
            for i in range(0, len(pts), 2):
                nx = pts[i] * self.V.u + self.V.off["X"]
                ny = pts[i + 1] * self.V.u + self.V.off["Y"]
                conds.append(self.inside(nx, ny))
        return alg.or_(*conds)

    def home(self):
        return self.feed("G28")

    # ---- IND: an arbitrary filter state that satisfies the coupling invariant "tracked frame == file's frame"
    def havoc_not_excluding(self, g90e=False, retraction="any"):
        """Replace the tracked state by an arbitrary one outside an episode and make V (and P) agree with it.

        Invariant built: axes homed (current known), offsets 0 (G92 X/Y/Z and M206 are outside the claims), X/Y/Z
        mode and unit multiplier arbitrary, E absolute (or following G90/G91 when g90e), feed rate arbitrary,
        exclusion enabled, not excluding, nothing pending, lastRetraction None or an arbitrary retraction whose recovery
        was not skipped.  V/P: same native position, E register, modes and units."""
        w = self.w
        st = self.state
        env = w.env
        inch = w.flag("ind-inch")
        rel = w.flag("ind-relative")
        u = 25.4 if inch else 1.0
        pos = st.position
        vals = {}
        for name, axis in (("X", pos.X_AXIS), ("Y", pos.Y_AXIS), ("Z", pos.Z_AXIS), ("E", pos.E_AXIS)):
            v = w.real("ind_%s" % name)
            axis.current = v
            axis.offset = 0.0
            axis.homeOffset = 0.0
            axis.unitMultiplier = u
            axis.absoluteMode = (not rel) if name != "E" else (not (rel and g90e))
            vals[name] = v
        st.feedRate = w.real("ind_F")
        w.assume(st.feedRate >= 0)
        st.feedRateUnitMultiplier = u
        st.excluding = False
        st._exclusionEnabled = True
        st.pendingCommands.clear()
        st.lastPosition = None
        st.numCommands = 7
        RS = env.RetractionState
        sel = w.choose(4, "ind-retraction") if retraction == "any" else 0
        if sel == 0:
            st.lastRetraction = None
        elif sel in (1, 2):
            amt = w.real("ind_ret_amount")
            w.assume(amt > 0)
            fr = w.real("ind_ret_feed")
            w.assume(fr >= 0)
            st.lastRetraction = RS(originalCommand="G1 E-1", firmwareRetract=False, extrusionAmount=amt, feedRate=fr)
            st.lastRetraction.allowCombine = (sel == 1)
        else:
            st.lastRetraction = RS(originalCommand="G10 S1", firmwareRetract=True)
            st.lastRetraction.allowCombine = w.flag("ind-combine")
        from fractions import Fraction
        uu = (Fraction(254, 10) if inch else 1) if w.symbolic else u
        for pr in (self.V, self.P):
            pr.x, pr.y, pr.z, pr.e = vals["X"], vals["Y"], vals["Z"], vals["E"]
            pr.u = uu
            pr.abs_xyz = not rel
            pr.abs_e = not (rel and g90e)
            pr.homed = True
            pr.feed = st.feedRate
        self.ep = False
        return vals

    def havoc_excluding(self, g90e=False):
        """Arbitrary filter state INSIDE an episode, coupled with V and P by the invariant

            tracked frame == V's;  P's X/Y = where the tool was parked at entry (arbitrary);
            P's Z = the Z recorded at entry (lastPosition);  P's modes and units == V's (mode/unit commands pass through);
            P's E register arbitrary (re-synchronised by G92 on leaving);  the oracle's episode flag is set.
        """
        w = self.w
        vals = self.havoc_not_excluding(g90e)
        st = self.state
        P = self.P
        st.excluding = True
        st.excludeStartTime = 0.0
        st.numExcludedCommands = 3
        lp = w.env.Position(st.position)
        lp.X_AXIS.current = w.real("ind_entry_X")
        lp.Y_AXIS.current = w.real("ind_entry_Y")
        lp.Z_AXIS.current = w.real("ind_entry_Z")
        st.lastPosition = lp
        P.x, P.y, P.z = w.real("ind_P_X"), w.real("ind_P_Y"), lp.Z_AXIS.current
        P.e = w.real("ind_P_E")
        lr = st.lastRetraction
        if lr is not None:
            lr.recoverExcluded = w.flag("ind-recover-excluded")
        self.ep = True
        return vals

    def tracked_equals_file(self, include_e=True):
        """The coupling invariant after a step: tracked position/frame == V's."""
        pos = self.state.position
        V = self.V
        conds = [alg.eq(pos.X_AXIS.current, V.x), alg.eq(pos.Y_AXIS.current, V.y), alg.eq(pos.Z_AXIS.current, V.z)]
        if include_e:
            conds.append(alg.eq(pos.E_AXIS.current, V.e))
        for ax in (pos.X_AXIS, pos.Y_AXIS, pos.Z_AXIS):
            conds.append(ax.absoluteMode == V.abs_xyz)
            conds.append(alg.eq(ax.unitMultiplier, V.u))
            conds.append(alg.eq(ax.offset, 0))
        conds.append(pos.E_AXIS.absoluteMode == V.abs_e)
        conds.append(alg.eq(pos.E_AXIS.unitMultiplier, V.u))
        conds.append(alg.eq(self.state.feedRateUnitMultiplier, V.u))
        return alg.and_(*conds)

    def prologue(self):
        """PRINT prologue: G28 through the real handler, then one positioning move with arbitrary
        X/Y/Z/E/F whose destination is assumed to be outside every region (so the tool, the extruder
        register and the feed rate start from generic values instead of the home position)."""
        self.feed("G28")
        w = self.w
        vals = [w.real("p0_%s" % a) for a in "XYZEF"]
        text = "G1 " + " ".join(a + w.key(v) for a, v in zip("XYZEF", vals))
        rec = self.begin(text)
        w.assume(vals[3] > 0)          # an extruding move (no retraction state is created)
        w.assume(vals[4] > 0)
        if self.regions and self.enabled:
            w.assume(alg.not_(rec.dest_inside))
        return self.finish()


REPEAT = Shape("@repeat", (), tag="repeat")     # "send the previous command text again, verbatim"


def next_text(w, pipe, shape):
    """Text of the next command for `shape`; for REPEAT the previous G-code text (same literals, same values)."""
    if shape is REPEAT:
        prev = [t for t in pipe.program if not t.startswith(("@", "<"))]
        if len(prev) < 2:           # the prologue's commands do not count
            skip(w, "nothing to repeat")
        return prev[-1], rs274.read(prev[-1]).code
    text, _ = render(w, shape, pipe.k)
    return text, shape.code


def synth_has_e(rec):
    """Did the filter emit a command of its own (not the original text) that carries an E word?"""
    for e in rec.emitted:
        if e != rec.text and rs274.read(e).has("E"):
            return True
    return False


# ---- shape alphabets ---------------------------------------------------------------------------------------
MOVES_BASIC = [S("G1", "X# Y#"), S("G1", "X# Y# E#"), S("G0", "X#"), S("G1", "Y#"), S("G1", "Z#"),
               S("G1", "X# Y# Z#"), S("G1", "E#"), S("G1", "F#"), S("G1", "")]
RETRACT = [S("G1", "E#"), S("G10", ""), S("G11", ""), S("G10", "S1"), S("G11", "S1")]
MODES = [S("G20"), S("G21"), S("G90"), S("G91")]
OTHER = [S("M105"), S("G4", "P#"), S("G92", "E#")]
ARCS = [S("G2", "X# Y# I# J#"), S("G3", "X# Y# I# J# E#")]
