"""Shared scenario for C04 (extruder coordinate / extruded amounts) and C05 (retraction depth).

Programs are built from *roles* instead of free shapes so that the property's quantifier ("matched,
equal-length retract/recover cycles, E-only or firmware, not mixed, absolute extrusion") is met by
construction; every number is still a solver variable, tied to the file's own state by assumptions that
are stated before the command reaches the code:
    RET   G1 E<e>        e = file E - a        (only when the file is not retracted)
    REC   G1 E<e>        e = file E + a        (only when the file is retracted)
    FRET  G10 [S1]       / FREC  G11 [S1]      (firmware style; same alternation)
    PRINT G1 X Y E<e>    e > file E            (only when the file is not retracted)
    TRAVEL G1 X Y / ZHOP G1 Z / SETE G92 E<e> / G20 / G21
`a` (the retraction length, > 0) is one solver variable for the whole program.
"""
from __future__ import annotations

from symx import alg
from harness import pipeline as pl, plugin_util as pu
from oracles import rs274

ROLES_E = ["RET", "REC", "PRINT", "TRAVEL", "ZHOP", "SETE", "G20", "G21", "TRAVELX", "TRAVELE", "HOME"]
ROLES_FW = ["FRET", "FREC", "FRET1", "FREC1", "PRINT", "TRAVEL", "SETE", "G20", "TRAVELX"]

KF_OWED_MOVE = "owed_recovery_before_move_with_xyz"
KF_RET_OWED = "retract_outside_while_recovery_owed"
EXCLUDABLE = [KF_OWED_MOVE, KF_RET_OWED]


def scen(w, which="C04", K=4, firmware=0, kinds="r", roles=None, sequence=None):
    fw = bool(firmware)
    role_names = (roles.split(",") if roles else (ROLES_FW if fw else ROLES_E))
    # through the real plugin hooks (print active), so that hook-level changes are seen as well
    plugin = pu.make_plugin(w, may_shrink=True)
    pu.fire(plugin, "PRINT_STARTED")
    pipe = pl.Pipe(w, plugin=plugin)
    kind = "rect" if (kinds == "r" or (kinds == "rd" and w.choose(2, "rkind") == 0)) else "disc"
    pipe.add_region(pl.fresh_region(w, kind, "r0"))
    pipe.prologue()
    V, P = pipe.V, pipe.P
    a = w.real("a")
    w.assume(a > 0)
    file_retracted = False
    owed = False                 # oracle: a recovery was skipped inside a region and not yet made up
    max_depth_req = 0            # deepest retraction the file has requested so far
    fw_words = {}                # parameter words of the file's last G10 / G11
    seq = sequence.split(",") if sequence else None
    for k in range(len(seq) if seq else K):
        role = seq[k] if seq else role_names[w.choose(len(role_names), "role")]
        w.cover("role-" + role)
        text = None
        if role in ("RET", "REC"):
            if (role == "RET") == file_retracted:
                pl.skip(w, "unmatched cycle")
            e = w.real("c%d_E" % pipe.k)
            text = "G1 E" + w.key(e)
            tgt = V.e - a if role == "RET" else V.e + a
            w.assume(alg.eq(e * V.u, tgt))
            file_retracted = (role == "RET")
        elif role in ("FRET", "FREC", "FRET1", "FREC1"):
            if role.startswith("FRET") == file_retracted:
                pl.skip(w, "unmatched cycle")
            text = ("G10" if role.startswith("FRET") else "G11") + (" S1" if role.endswith("1") else "")
            file_retracted = role.startswith("FRET")
            fw_words[text[:3]] = rs274.read(text).words
        elif role in ("PRINT", "PRINTDOT"):
            if file_retracted:
                pl.skip(w, "printing move while the file is retracted")
            x, y, e = w.real("c%d_X" % pipe.k), w.real("c%d_Y" % pipe.k), w.real("c%d_E" % pipe.k)
            # PRINTDOT: the E word is spelled with a leading decimal point (".5"), legal in RS274/Marlin
            text = "G1 X%s Y%s E%s" % (w.key(x), w.key(y), w.key(e, "." if role == "PRINTDOT" else ""))
            w.assume(e * V.u > V.e)
            role = "PRINT"
        elif role == "TRAVEL":
            x, y = w.real("c%d_X" % pipe.k), w.real("c%d_Y" % pipe.k)
            text = "G1 X%s Y%s" % (w.key(x), w.key(y))
        elif role == "TRAVELE":
            x, y, e = w.real("c%d_X" % pipe.k), w.real("c%d_Y" % pipe.k), w.real("c%d_E" % pipe.k)
            text = "G1 X%s Y%s E%s" % (w.key(x), w.key(y), w.key(e))
            w.assume(alg.eq(e * V.u, V.e))          # the E word restates the current extruder position
        elif role == "TRAVELX":
            x = w.real("c%d_X" % pipe.k)
            text = "G0 X%s" % w.key(x)
        elif role == "ZHOP":
            text = "G1 Z%s" % w.key(w.real("c%d_Z" % pipe.k))
        elif role == "SETE":
            text = "G92 E%s" % w.key(w.real("c%d_E" % pipe.k))
        elif role == "HOME":
            if pipe.state.excluding:
                pl.skip(w, "homing inside an episode (outside the claims)")
            text = "G28"
        elif role in ("ATOFF", "ATON", "DELREGION"):
            # pseudo steps: @-commands through the @-command hook, region deletion through the API path
            pipe.program.append("<%s>" % role)
            w.note("program", list(pipe.program))
            if role == "DELREGION":
                if not pipe.regions:
                    pl.skip(w, "no region left")
                plugin.on_api_command("deleteExcludeRegion", {"id": "r0"})
                pipe.regions[:] = []
                continue
            comm = pu.CommStub()
            ep_b = pipe.ep
            plugin.handleAtCommandQueuing(comm, "queuing", "ExcludeRegion", "off" if role == "ATOFF" else "on")
            for c in comm.sent:
                P.execute(c)
            if role == "ATOFF":
                pipe.enabled = False
                pipe.ep = False
                if which == "C04":
                    if w.check(alg.eq(P.e, V.e), "extruder-coordinate-in-sync",
                               "after <%s> (episode open before: %s), sent %r" % (role, ep_b, comm.sent)) is False:
                        return
            else:
                pipe.enabled = True
            continue
        else:
            text = role
        rec = pipe.begin(text)
        # known-finding scenario classes (assumed away while the finding is open)
        will_be_inside = rec.dest_inside if pipe.enabled else False
        if KF_OWED_MOVE in w.excluded and role == "PRINT" and owed is not False:
            w.assume(alg.not_(alg.and_(owed, alg.not_(will_be_inside))))
        if KF_RET_OWED in w.excluded and role in ("RET", "FRET", "FRET1") and owed is not False:
            w.assume(alg.not_(alg.and_(owed, alg.not_(rec.ep_before))))
        depth_v_before = V.depth() if not fw else None
        # V.execute already ran inside begin(): depth "before" must be taken from the snapshot
        vb = rec.v_before
        depth_v_before = vb["hw"] - vb["fil"]
        fw_v_before = vb["fw"]
        p_e_before = P.e
        rec = pipe.finish()
        if rec.raised is not None:
            w.fail("handler-raised", "%s raised %r" % (text, rec.raised))
            return
        depth_v = V.depth()
        max_depth_req = depth_v if bool(max_depth_req <= depth_v) else max_depth_req
        # oracle bookkeeping of owed recoveries: a REC/FREC skipped while an episode is open
        if role in ("REC", "FREC", "FREC1"):
            owed = alg.or_(owed, rec.ep_after)
        elif role in ("RET", "FRET", "FRET1"):
            owed = False      # a retraction while a recovery is owed cancels it (inside); outside it is the known finding
        elif role == "PRINT" and owed is not False:
            owed = alg.and_(owed, alg.or_(rec.ep_before, rec.ep_after))
        if rec.excluding_after:
            w.cover("episode-open")
        if any(e != text for e in rec.emitted):
            w.cover("filter-synthesised-commands")
        desc = "step %d [%s] %r -> %r" % (k, role, text, rec.emitted)
        outside_now = alg.not_(rec.ep_after)
        oks = []
        if which == "C04":
            oks.append(w.check(alg.implies(outside_now, alg.eq(P.e, V.e)), "extruder-coordinate-in-sync", desc))
            if role == "PRINT":
                # only a move that IS forwarded is constrained (the move that leaves a region is
                # replaced by a non-extruding re-positioning, which the property permits)
                own = [m for m in rec.motions if m.text == text]
                if own:
                    w.cover("printing-move-forwarded")
                    oks.append(w.check(alg.implies(outside_now, alg.eq(own[0].dfil, rec.vm.dfil)),
                                       "forwarded-move-pushes-file-amount", desc))
            still = [alg.le(m.dfil, 0) for m in rec.motions]
            oks.append(w.check(alg.implies(rec.ep_after, alg.and_(*still) if still else True),
                               "suppressed-moves-push-nothing", desc))
        else:
            if not fw:
                # walk P's elements of this step: depth after each one
                fil, hw = rec.p_before["fil"], rec.p_before["hw"]
                conds_deeper, conds_equal = [], []
                for m in rec.motions:
                    depth_before_m = hw - fil
                    if m.has_xyz:
                        conds_equal.append(alg.implies(alg.gt(m.dfil, 0), alg.eq(depth_before_m, depth_v_before)))
                    fil = fil + m.dfil
                    hw = fil if bool(hw <= fil) else hw
                    conds_deeper.append(alg.le(hw - fil, max_depth_req))
                oks.append(w.check(alg.and_(*conds_deeper) if conds_deeper else True,
                                   "never-deeper-than-requested", desc))
                oks.append(w.check(alg.ge(P.depth(), depth_v), "never-shallower-than-file", desc))
                oks.append(w.check(alg.and_(*conds_equal) if conds_equal else True,
                                   "depth-equal-when-printing-move-extrudes", desc))
            else:
                # firmware style: effective G10/G11 must alternate, parity equal at printing moves,
                # generated G10/G11 carry the parameter words of the file's command
                fwp = rec.p_before["fw"]
                alternates = True
                parity_ok = True
                params_ok = True
                for m in rec.motions:
                    if m.code == "G10" and m.kind.startswith("fw-retract"):
                        if fwp:
                            alternates = False
                        fwp = True
                    elif m.code == "G11":
                        if not fwp:
                            alternates = False
                        fwp = False
                    elif m.kind == "move" and m.has_xyz and m.has_e:
                        if fwp != fw_v_before:
                            parity_ok = False
                    if m.code in ("G10", "G11") and m.text != text:
                        params_ok = params_ok and (rs274.read(m.text).words in list(fw_words.values()))
                oks.append(w.check(alternates, "firmware-retract-never-doubled", desc))
                oks.append(w.check(parity_ok, "firmware-parity-equal-at-printing-move", desc))
                oks.append(w.check(params_ok, "generated-G10-G11-carry-original-parameters", desc))
                oks.append(w.check(alg.implies(outside_now, alg.eq(P.e, V.e)) if False else True, "noop"))
        if any(o is False for o in oks):
            return


# =====================================================================================================================
# Inductive step for C04 / C05 (E-style retraction, absolute extrusion)
#
# Invariant over (filter F, file printer V, output printer P), with one symbolic cycle length a > 0:
#   class  F.lastRetraction                          file      depth(V)  depth(P)
#   0      None                                      not retr. 0         0
#   1      amount a, recovery not skipped            retracted a         a
#   2      amount a, recovery skipped (owed)         not retr. 0         a
# in each class either outside an episode (then P's E register equals V's) or inside one (P's E register arbitrary);
# tracked frame == V's frame as in harness/inductive.py; deepest retraction requested so far is a (classes 1, 2) or
# 0 / a (class 0).
IND_ROLES = ["RET", "REC", "PRINT", "TRAVEL", "TRAVELE", "ZHOP", "SETE", "G20", "G21", "TRAVELX", "HOME"]


def ind_step(w, which="C04", start="outside", kinds="r"):
    pipe = pl.Pipe(w, False)
    kind = "rect" if (kinds == "r" or (kinds == "rd" and w.choose(2, "rkind") == 0)) else "disc"
    pipe.add_region(pl.fresh_region(w, kind, "r0"))
    if start == "inside":
        pipe.havoc_excluding()
    else:
        pipe.havoc_not_excluding()
    V, P, st = pipe.V, pipe.P, pipe.state
    a = w.real("a")
    w.assume(a > 0)
    cls = w.choose(3, "ind-class")
    w.cover("class-%d-%s" % (cls, start))
    RS = w.env.RetractionState
    if cls == 0:
        st.lastRetraction = None
    else:
        fr = w.real("ind_ret_feed2")
        w.assume(fr >= 0)
        lr = RS(originalCommand="G1 E-1", firmwareRetract=False, extrusionAmount=a, feedRate=fr)
        lr.recoverExcluded = (cls == 2)
        lr.allowCombine = False if cls == 2 else w.flag("ind-allow-combine")
        st.lastRetraction = lr
    file_retracted = (cls == 1)
    owed = (cls == 2)
    ever = True if cls != 0 else w.flag("ind-retracted-before")
    max_depth_req = a if ever else 0
    vf, pf = w.real("ind_V_fil"), w.real("ind_P_fil")
    V.fil, V.hw = vf, vf + (a if cls == 1 else 0)
    P.fil, P.hw = pf, pf + (a if cls != 0 else 0)
    if start != "inside":
        P.e = V.e
    role = IND_ROLES[w.choose(len(IND_ROLES), "role")]
    w.cover("role-" + role)
    if role in ("RET", "REC"):
        if (role == "RET") == file_retracted:
            pl.skip(w, "unmatched cycle")
        e = w.real("c0_E")
        text = "G1 E" + w.key(e)
        w.assume(alg.eq(e * V.u, (V.e - a) if role == "RET" else (V.e + a)))
    elif role == "PRINT":
        if file_retracted:
            pl.skip(w, "printing move while the file is retracted")
        x, y, e = w.real("c0_X"), w.real("c0_Y"), w.real("c0_E")
        text = "G1 X%s Y%s E%s" % (w.key(x), w.key(y), w.key(e))
        w.assume(e * V.u > V.e)
    elif role == "TRAVEL":
        text = "G1 X%s Y%s" % (w.key(w.real("c0_X")), w.key(w.real("c0_Y")))
    elif role == "TRAVELE":
        x, y, e = w.real("c0_X"), w.real("c0_Y"), w.real("c0_E")
        text = "G1 X%s Y%s E%s" % (w.key(x), w.key(y), w.key(e))
        w.assume(alg.eq(e * V.u, V.e))
    elif role == "TRAVELX":
        text = "G0 X%s" % w.key(w.real("c0_X"))
    elif role == "ZHOP":
        text = "G1 Z%s" % w.key(w.real("c0_Z"))
    elif role == "SETE":
        text = "G92 E%s" % w.key(w.real("c0_E"))
    elif role == "HOME":
        if start == "inside":
            pl.skip(w, "homing inside an episode (outside the claims)")
        text = "G28"
    else:
        text = role
    rec = pipe.begin(text)
    if KF_OWED_MOVE in w.excluded and role == "PRINT" and owed:
        w.assume(rec.dest_inside)
    if KF_RET_OWED in w.excluded and role == "RET" and owed and start != "inside":
        pl.skip(w, KF_RET_OWED)
    if rec.is_move and not V.abs_xyz and "exit_while_xyz_relative" in w.excluded:
        w.assume(alg.not_(alg.and_(rec.ep_before, alg.not_(rec.dest_inside))))
    vb = rec.v_before
    depth_v_before = vb["hw"] - vb["fil"]
    rec = pipe.finish()
    if rec.raised is not None:
        w.fail("handler-raised", "%s raised %r" % (text, rec.raised))
        return
    desc = "inductive step from %s an episode, class %d, [%s] %r -> %r" % (start, cls, role, text, rec.emitted)
    depth_v = V.depth()
    if role == "RET":
        file_retracted = True
        max_depth_req = a
        owed = False
    elif role == "REC":
        file_retracted = False
        owed = alg.or_(owed, rec.ep_after)
    elif role == "PRINT" and owed is not False:
        # a printing move forwarded outside a region makes up the owed recovery first; a move that enters, stays in or
        # leaves a region does not
        owed = alg.and_(owed, alg.or_(rec.ep_before, rec.ep_after))
    outside_now = alg.not_(rec.ep_after)
    if which == "C04":
        if not w.check(alg.implies(outside_now, alg.eq(P.e, V.e)), "extruder-coordinate-in-sync", desc):
            return
        if role == "PRINT":
            own = [m for m in rec.motions if m.text == text]
            if own and not w.check(alg.implies(outside_now, alg.eq(own[0].dfil, rec.vm.dfil)),
                                   "forwarded-move-pushes-file-amount", desc):
                return
        still = [alg.le(m.dfil, 0) for m in rec.motions]
        if not w.check(alg.implies(rec.ep_after, alg.and_(*still) if still else True),
                       "suppressed-moves-push-nothing", desc):
            return
    else:
        fil, hw = rec.p_before["fil"], rec.p_before["hw"]
        conds_deeper, conds_equal = [], []
        for m in rec.motions:
            if m.has_xyz:
                conds_equal.append(alg.implies(alg.gt(m.dfil, 0), alg.eq(hw - fil, depth_v_before)))
            fil = fil + m.dfil
            hw = alg.max_(hw, fil)
            conds_deeper.append(alg.le(hw - fil, max_depth_req))
        if not w.check(alg.and_(*conds_deeper) if conds_deeper else True, "never-deeper-than-requested", desc):
            return
        if not w.check(alg.ge(P.depth(), depth_v), "never-shallower-than-file", desc):
            return
        if not w.check(alg.and_(*conds_equal) if conds_equal else True, "depth-equal-when-printing-move-extrudes", desc):
            return
    # ---- invariant re-established (class membership of the post-state)
    lr = st.lastRetraction
    exp_v = a if file_retracted else 0
    exp_p = alg.ite(alg.or_(file_retracted, owed), a, 0)
    conds = [pipe.tracked_equals_file(include_e=True), alg.eq(depth_v, exp_v), alg.eq(P.depth(), exp_p),
             alg.implies(outside_now, alg.eq(P.e, V.e)), alg.iff(rec.ep_after, rec.excluding_after)]
    if lr is None:
        conds.append(alg.and_(alg.not_(owed), not file_retracted))
    else:
        conds.append(alg.eq(lr.extrusionAmount, a))
        conds.append(alg.iff(lr.recoverExcluded, owed))
        conds.append(alg.or_(file_retracted, owed))
        conds.append(alg.implies(owed, lr.allowCombine is False))
    w.check(alg.and_(*conds), "invariant-re-established", desc)


# =====================================================================================================================
# Inductive step for C05, firmware-style retraction (G10/G11)
#   class 0: no retraction recorded, file not retracted, V and P not retracted
#   class 1: firmware retraction recorded, recovery not skipped, file retracted, V and P retracted
#   class 2: firmware retraction recorded, recovery skipped (owed), file not retracted, V not retracted, P retracted
IND_FW_ROLES = ["FRET", "FREC", "FRET1", "FREC1", "PRINT", "TRAVEL", "TRAVELX", "ZHOP", "G20", "G21"]


def ind_step_fw(w, start="outside", kinds="r"):
    pipe = pl.Pipe(w, False)
    kind = "rect" if (kinds == "r" or (kinds == "rd" and w.choose(2, "rkind") == 0)) else "disc"
    pipe.add_region(pl.fresh_region(w, kind, "r0"))
    if start == "inside":
        pipe.havoc_excluding()
    else:
        pipe.havoc_not_excluding()
    V, P, st = pipe.V, pipe.P, pipe.state
    cls = w.choose(3, "ind-class")
    w.cover("class-%d-%s" % (cls, start))
    RS = w.env.RetractionState
    orig = ["G10", "G10 S1"][w.choose(2, "orig-g10")]
    fw_words = {"G10": rs274.read(orig).words}
    if cls == 0:
        st.lastRetraction = None
        fw_words = {}
    else:
        lr = RS(originalCommand=orig, firmwareRetract=True)
        lr.recoverExcluded = (cls == 2)
        lr.allowCombine = False if cls == 2 else w.flag("ind-allow-combine")
        st.lastRetraction = lr
    file_retracted = (cls == 1)
    owed = (cls == 2)
    V.fw_retracted = file_retracted
    P.fw_retracted = (cls != 0)
    if start != "inside":
        P.e = V.e
    role = IND_FW_ROLES[w.choose(len(IND_FW_ROLES), "role")]
    w.cover("role-" + role)
    if role in ("FRET", "FREC", "FRET1", "FREC1"):
        if role.startswith("FRET") == file_retracted:
            pl.skip(w, "unmatched cycle")
        text = ("G10" if role.startswith("FRET") else "G11") + (" S1" if role.endswith("1") else "")
        fw_words[text[:3]] = rs274.read(text).words
    elif role == "PRINT":
        if file_retracted:
            pl.skip(w, "printing move while the file is retracted")
        x, y, e = w.real("c0_X"), w.real("c0_Y"), w.real("c0_E")
        text = "G1 X%s Y%s E%s" % (w.key(x), w.key(y), w.key(e))
        w.assume(e * V.u > V.e)
    elif role == "TRAVEL":
        text = "G1 X%s Y%s" % (w.key(w.real("c0_X")), w.key(w.real("c0_Y")))
    elif role == "TRAVELX":
        text = "G0 X%s" % w.key(w.real("c0_X"))
    elif role == "ZHOP":
        text = "G1 Z%s" % w.key(w.real("c0_Z"))
    else:
        text = role
    rec = pipe.begin(text)
    if rec.is_move and not V.abs_xyz and "exit_while_xyz_relative" in w.excluded:
        w.assume(alg.not_(alg.and_(rec.ep_before, alg.not_(rec.dest_inside))))
    fw_v_before = rec.v_before["fw"]
    rec = pipe.finish()
    if rec.raised is not None:
        w.fail("handler-raised", "%s raised %r" % (text, rec.raised))
        return
    desc = "inductive step (firmware style) from %s an episode, class %d, [%s] %r -> %r" % (start, cls, role, text, rec.emitted)
    if role.startswith("FRET"):
        file_retracted = True
        owed = False
    elif role.startswith("FREC"):
        file_retracted = False
        owed = alg.or_(owed, rec.ep_after)
    elif role == "PRINT" and owed is not False:
        owed = alg.and_(owed, alg.or_(rec.ep_before, rec.ep_after))
    fwp = rec.p_before["fw"]
    alternates = parity_ok = params_ok = True
    for m in rec.motions:
        if m.code == "G10" and m.kind.startswith("fw-retract"):
            if fwp:
                alternates = False
            fwp = True
        elif m.code == "G11":
            if not fwp:
                alternates = False
            fwp = False
        elif m.kind == "move" and m.has_xyz and m.has_e and fwp != fw_v_before:
            parity_ok = False
        if m.code in ("G10", "G11") and m.text != text:
            params_ok = params_ok and (rs274.read(m.text).words in list(fw_words.values()))
    if not w.check(alternates, "firmware-retract-never-doubled", desc):
        return
    if not w.check(parity_ok, "firmware-parity-equal-at-printing-move", desc):
        return
    if not w.check(params_ok, "generated-G10-G11-carry-original-parameters", desc):
        return
    lr = st.lastRetraction
    conds = [pipe.tracked_equals_file(include_e=True), V.fw_retracted == file_retracted,
             alg.iff(P.fw_retracted, alg.or_(file_retracted, owed)), alg.iff(rec.ep_after, rec.excluding_after)]
    if lr is None:
        conds.append(alg.and_(alg.not_(owed), not file_retracted))
    else:
        conds.append(lr.firmwareRetract is True)
        conds.append(alg.iff(lr.recoverExcluded, owed))
        conds.append(alg.or_(file_retracted, owed))
    w.check(alg.and_(*conds), "invariant-re-established", desc)
