"""C13 -- region registry integrity and client notification (see harness/registry.py)."""
from harness.base import Scenario
from harness import registry

PROPERTY = "C13"


def step(w, R=2):
    registry.api_step(w, "C13", R, events=True)


SCENARIOS = {"api-step": step}

META = {
    "assumptions": [
        "floats modelled as reals; hypot by its contract (polynomial encoding)",
        "flask_login.current_user, flask.jsonify, settings, plugin manager, logger are stubs",
        "uuid.uuid4 stub may return an id that collides with an existing region",
    ],
    "outside_claim": ["the OctoPrint side of SimpleApiPlugin (request validation of required keys, JSON encoding)",
                      "more than R regions"],
}


def plan(tier):
    R = 2 if tier == "quick" else 3
    return [Scenario("api-step", step, params={"R": R},
                     cover=["refused", "notified"] + ["step-%d" % i for i in range(7)],
                     nra_mode="oneshot", bounds={"regions": "0..%d" % R, "requests/events": "1 (inductive step)",
                             "geometry": "unbounded reals"})]
