"""C09 -- filtering is total and protocol-conformant.

Scheme BSR, K commands after the homing prologue, over a wide alphabet of codes and parameter spellings
(missing / repeated / valueless words, signs, leading-dot numbers, arcs in I/J form, R form, both, neither,
G10 with S or P, bare G92, M206, unknown G/M/T codes), with the REAL planArc and computeArcCenterOffsets
(trig by the contracts of symx/trig.py, segment count concretised over 0..S).
Obligations: no exception propagates out of the real code on any feasible path; the result is None,
(None,), or a non-empty list of non-empty strings; the stream processor returns a non-empty string or None.
"""
import io

from harness.base import Scenario, NullLogger
from harness import pipeline as pl
from harness.pipeline import S

PROPERTY = "C09"

ALPHABET = {
    "linear": [S("G0", "X# Y#"), S("G1", "X# Y# Z# E# F#"), S("G1", "X"), S("G1", "X# X#"), S("G1", "E#"),
               S("G1", ""), S("G1", "X#. Y#-"), S("G1", "Z#+"), S("G0", "F#"), S("G1", "Y E")],
    "arcs": [S("G2", "X# Y# I# J#"), S("G3", "X# Y# I# J#"), S("G2", "X# Y# R#"), S("G3", "X# Y# R#"),
             S("G2", "I# J#"), S("G3", "X# Y#"), S("G2", "X# Y# I# J# R#"), S("G3", "X# I#"), S("G2", "R#"),
             S("G3", "X# Y# I# J# Z# E# F#")],
    "state": [S("G10", ""), S("G10", "S#"), S("G10", "P1"), S("G10", "L2 P1"), S("G11", ""), S("G11", "S1"),
              S("G20"), S("G21"), S("G90"), S("G91"), S("G28"), S("G28", "X"), S("G28", "X0 Z"),
              S("G92", ""), S("G92", "E#"), S("G92", "X# Y# Z#"), S("G92", "X"), S("M206", "X# Y#"), S("M206", "Z"),
              S("G1", "X# Y# E#")],
    "enter": [S("G1", "X# Y#"), S("G1", "X# Y# E#")],
    "deferred": [S("M205", "X# E"), S("M204", "P# e"), S("M73", "P# R"), S("M204", "P#"), S("M117", "S1")],
    "leave": [S("G1", "X# Y#"), S("G0", "X#")],
    "frame": [S("G20"), S("G91"), S("G92", "X# Y# Z#"), S("M206", "X# Y#"), S("G1", "X# Y# E#")],
    "other": [S("M105"), S("T0"), S("T1"), S("G5", "X# Y#"), S("M204", "P# T#"), S("M204", ""), S("M117", "S1"),
              S("G4", "P#"), S("M73", "P# R#"), S("M999"), S("G1", "X# Y#"), S("G38.2", "Z#")],
}


def scen(w, template="linear,linear", entry="hook", S_=3, regions=1, kinds="rd", indent=0):
    names = template.split(",")
    stream = (entry == "stream")
    if entry == "plugin":
        # through the real plugin hook; the first region is drawn only after some commands have been processed
        from harness import plugin_util as pu
        plugin = pu.make_plugin(w)
        pu.fire(plugin, "PRINT_STARTED")
        pipe = pl.Pipe(w, plugin=plugin, arc_stub=False, track_p=False)
        late_spec = pl.fresh_region(w, "rect", "r0")
        late_at = 1 + w.choose(len(names) - 1, "region-added-before-step") if len(names) > 1 else 1
        regions = 0
    else:
        late_at = None
        pipe = pl.Pipe(w, w.flag("g90e"), extended={"G4": "exclude", "M204": "merge", "M117": "last", "M73": "merge",
                                                    "M205": "merge"},
                       arc_stub=False, summarise=not stream, track_p=False)
    if w.symbolic:
        from symx import trig, values
        w.ctx.notes["int_bounds"] = (0, S_)
        # totality only: linear over-approximations of atan2/cos/sin/hypot (see symx/trig.py)
        trig.LIGHT[0] = True
        values.HYPOT_LIGHT[0] = True
    if regions and w.flag("with-region"):
        kind = "rect" if (kinds == "r" or w.choose(2, "rkind") == 0) else "disc"
        pipe.add_region(pl.fresh_region(w, kind, "r0"))
    pipe.feed("G28", catch=False)
    proc = None
    if stream:
        SP = w.env.mod("StreamProcessor").StreamProcessor
        proc = SP(io.BytesIO(b""), pipe.handlers)
    for k, an in enumerate(names):
        if late_at is not None and k == late_at:
            plugin.on_api_command("addExcludeRegion", {"type": "RectangularRegion", "id": "r0",
                                                       "x1": late_spec.params[0], "y1": late_spec.params[1],
                                                       "x2": late_spec.params[2], "y2": late_spec.params[3]})
            pipe.regions.append(late_spec)
            w.cover("region-added-late")
        shapes = ALPHABET[an]
        shape = shapes[w.choose(len(shapes), "shape")]
        w.cover("shape-" + shape.tag)
        text, _ = pl.render(w, shape, pipe.k)
        if indent and w.flag("indented"):
            text = "  " + text      # leading blanks are legal in a file line
        if stream:
            pipe.program.append(text)
            w.note("program", list(pipe.program))
            pipe.k += 1
            try:
                res = proc.process_line(text + "\n")
            except Exception as ex:
                w.fail("never-raises", "stream processor: %r raised %r (program %r)" % (text, ex, pipe.program))
                return
            ok = res is None or (isinstance(res, str) and len(res) > 0)
            if not w.check(ok, "protocol-conformant-result", "stream %r -> %r" % (text, res)):
                return
            continue
        pipe.begin(text)
        rec = pipe.finish()
        if rec.raised is not None:
            w.fail("never-raises", "%r raised %r (program %r)" % (text, rec.raised, pipe.program))
            return
        r = rec.result
        ok = (r is None or r == (None,) or
              (isinstance(r, list) and len(r) > 0 and all(isinstance(x, str) and len(x) > 0 for x in r)))
        if not w.check(ok, "protocol-conformant-result", "%r -> %r" % (text, r)):
            return
        if isinstance(r, list):
            w.cover("list-result")
        if r == (None,):
            w.cover("suppressed")


SCENARIOS = {}

META = {
    "assumptions": [
        "floats modelled as reals: overflow to inf/nan (literals beyond 1e308) cannot occur",
        "trig by contract (symx/trig.py); arc segment count concretised over 0..S, longer arcs cut (bound-exceeded paths)",
        "axes homed by the G28 prologue; logger stubbed; OctoPrint's LineProcessorStream base class not executed "
        "(process_line is driven directly)",
    ],
    "outside_claim": ["float overflow for huge literals", "arcs longer than S segments", "unhomed axes",
                      "memory exhaustion from huge arcs"],
}


def plan(tier):
    out = []

    def add(name, template, entry="hook", S_=3, kinds="rd", indent=0):
        names = template.split(",")
        SCENARIOS[name] = scen
        cov = sorted(set("shape-" + s.tag for n in names for s in ALPHABET[n]))
        out.append(Scenario(name, scen, params={"template": template, "entry": entry, "S_": S_, "kinds": kinds,
                                                "indent": indent},
                            cover=cov, bounds={"K": len(names), "S": S_, "entry": entry,
                                               "alphabet": {n: [s.tag for s in ALPHABET[n]] for n in set(names)}}))
    add("hook-linear", "linear,linear")
    add("hook-state", "state,state")
    add("hook-other", "other,state")
    add("hook-arcs", "arcs", S_=2)
    add("hook-frame-arcs", "frame,arcs", S_=2, kinds="r")
    add("hook-episode-deferred", "enter,deferred,leave", kinds="r")
    add("stream-state", "state,linear", entry="stream")
    add("stream-enter-state", "enter,state", entry="stream", indent=1)
    add("hook-enter-state-indented", "enter,state", indent=1, kinds="r")
    add("plugin-late-region", "linear,linear", entry="plugin")
    add("stream-arcs", "arcs", entry="stream", S_=2, kinds="r")
    if tier == "thorough":
        add("hook-state-arcs", "state,arcs", S_=2)
        add("hook-arcs-s4", "arcs", S_=4, kinds="r")
        add("stream-other", "other,state", entry="stream")
    return out


plan("thorough")
