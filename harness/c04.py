"""C04 -- extruder coordinate and extruded amounts are preserved outside regions (see harness/retraction.py)."""
from harness.base import Scenario
from harness import retraction as rt

PROPERTY = "C04"


def scen(w, **kw):
    rt.scen(w, which="C04", **kw)


SCENARIOS = {}


def scen_ind(w, start="outside", kinds="r"):
    rt.ind_step(w, "C04", start, kinds)

META = {
    "assumptions": [
        "floats modelled as reals; absolute extrusion mode; logger stubbed; numbers through numeric-key literals",
        "programs are built from roles (RET/REC/PRINT/TRAVEL/...) so that retract/recover cycles are matched and of one "
        "symbolic length a>0 (the property's quantifier); every number is a solver variable",
        "prologue: G28, then one extruding positioning move to an arbitrary point outside the region",
    ],
    "outside_claim": ["relative extrusion mode (M83 / G91 with G90-influences-extruder)", "unequal or unmatched cycles",
                      "mixing E-only and firmware retraction in one program", "programs longer than K", "more than one region"],
}


def plan(tier):
    out = []

    def add(name, **params):
        SCENARIOS[name] = scen
        roles = params.get("sequence") or params.get("roles", ",".join(rt.ROLES_FW if params.get("firmware") else rt.ROLES_E))
        roles = sorted(set(roles.split(",")))
        out.append(Scenario(name, scen, params=params,
                            cover=["role-" + r for r in roles] + (["episode-open", "filter-synthesised-commands"]
                                                                  if not params.get("sequence") else []),
                            bounds=dict(params, roles=roles), excludable=rt.EXCLUDABLE))
    add("e-only-k3", K=3, firmware=0, kinds="rd")
    if tier == "thorough":
        add("e-only-k5-core", K=5, firmware=0, kinds="r", roles="RET,REC,PRINT,TRAVEL,TRAVELE")
    add("e-only-k4-core", K=4, firmware=0, kinds="r", roles="RET,REC,PRINT,TRAVEL,TRAVELE")
    add("e-only-k4-spelling", K=4, firmware=0, kinds="r", roles="PRINTDOT,TRAVEL,RET,REC")
    add("owed-cycle-k7", firmware=0, kinds="r", sequence="RET,TRAVEL,REC,TRAVEL,RET,REC,PRINT")
    add("disable-while-owed", firmware=0, kinds="r", sequence="RET,TRAVEL,REC,ATOFF,PRINT")
    add("disable-while-owed-fw", firmware=1, kinds="r", sequence="FRET,TRAVEL,FREC,ATOFF,PRINT")
    add("off-print-on-episode", firmware=0, kinds="r", sequence="ATOFF,PRINT,ATON,TRAVEL,TRAVEL,PRINT")
    add("delete-active-region", firmware=0, kinds="r", sequence="PRINT,DELREGION,PRINT")
    add("firmware-k4", K=4, firmware=1, kinds="r", roles="FRET,FREC,FRET1,FREC1,PRINT,TRAVEL")
    for start in ("outside", "inside"):
        SCENARIOS["ind-" + start] = scen_ind
        out.append(Scenario("ind-" + start, scen_ind, params={"start": start, "kinds": "r" if tier == "quick" else "rd"},
                            cover=["role-" + r for r in rt.IND_ROLES] + ["class-%d-%s" % (c, start) for c in range(3)],
                            bounds={"K": "1 step from an arbitrary invariant state (all history lengths)",
                                    "roles": rt.IND_ROLES, "retraction style": "E-only"},
                            excludable=rt.EXCLUDABLE + ["exit_while_xyz_relative"]))
    if tier == "thorough":
        add("e-only-k4", K=4, firmware=0, kinds="rd")
        add("firmware-k4-all", K=4, firmware=1, kinds="r")
        add("e-only-k6-core", K=6, firmware=0, kinds="r", roles="RET,REC,PRINT,TRAVEL")
    return out


plan("thorough")
