"""CLI: python -m harness.main <ID> [--tier quick|thorough] [--replay FILE]"""
import argparse
import importlib
import json
import os
import sys
import traceback

from harness import base


def main():
    ap = argparse.ArgumentParser()
    ap.add_argument("pid")
    ap.add_argument("--tier", default=os.environ.get("VERIF_TIER", "quick"))
    ap.add_argument("--replay")
    a = ap.parse_args()
    pid = a.pid.upper()
    seed = int(os.environ.get("VERIF_SEED", "0") or 0)
    if a.replay:
        rr = base.replay_file(a.replay)
        print(json.dumps(rr, indent=1, default=str))
        if rr.get("reproduced"):
            print("VIOLATION property=%s replay=%s" % (pid, a.replay))
            sys.exit(1)
        sys.exit(0)
    try:
        hm = importlib.import_module("harness." + pid.lower())
        rc = base.run_property(hm, a.tier if a.tier in ("quick", "thorough") else "quick", seed)
    except Exception:
        traceback.print_exc()
        print("INCONCLUSIVE property=%s harness error" % pid)
        rc = 2
    sys.exit(rc)


if __name__ == "__main__":
    main()
