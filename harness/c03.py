"""C03 -- leaving a region re-synchronises the tool position.

Scheme BSR on the shared pipeline.  After every *move* command whose destination (for arcs: every sampled
point) lies outside every region:
  (sync)   P's native X, Y, Z equal V's, and P's positioning mode and units equal V's;
  (travel) if the command ended an episode: every element that moves X/Y leaves Z untouched and travels at
           max(P's Z before the command, the target Z) -- Z raised before the XY travel, lowered after it.
"""
from symx import alg
from harness.base import Scenario
from harness import pipeline as pl
from harness.pipeline import S

PROPERTY = "C03"

ALPHABET = {
    "enter": [S("G1", "X# Y#"), S("G1", "X# Y# E#"), S("G1", "X# Y# Z#"), S("G0", "Y#")],
    "leave": [S("G1", "X# Y#"), S("G0", "X#"), S("G1", "Y# E#"), S("G1", "X# Y# Z#")],
    "inside": [S("G1", "X# Y#"), S("G1", "Z#"), S("G1", "X# Y# Z# E#"), S("G1", "E#"), S("G90"), S("G91"),
               S("G20"), S("G21"), S("M105"), S("G4", "P#"), S("G10", ""), S("G1", "F#"), pl.Shape("@replaceRegion", (), tag="replaceRegion")],
    "frame": [S("G20"), S("G21"), S("G90"), S("G91"), S("G1", "Z#"), S("G1", "X# Y#")],
    "arcs": [S("G2", "X# Y# I# J#"), S("G3", "X# Y# I# J# Z#"), S("G1", "X# Y#"), S("G1", "Y#")],
    "any": [S("G1", "X# Y#"), S("G1", "X# Y# Z#"), S("G1", "Z#"), S("G0", "X#"), S("G1", "Y# E#"), S("G91"),
            S("G90"), S("G20")],
}

KF_REL_EXIT = "exit_while_xyz_relative"
KF_ENTER_Z = "entering_move_has_z"


def scen(w, template="enter,inside,leave", kinds="r"):
    names = template.split(",")
    g90e = False
    pipe = pl.Pipe(w, g90e, extended={"G4": "exclude"})
    kind = "rect" if (kinds == "r" or (kinds == "rd" and w.choose(2, "rkind") == 0)) else "disc"
    pipe.add_region(pl.fresh_region(w, kind, "r0"))
    pipe.prologue()
    for k, an in enumerate(names):
        shapes = ALPHABET[an]
        shape = shapes[w.choose(len(shapes), "shape")]
        w.cover("shape-" + shape.tag)
        if shape.code == "@replaceRegion":
            # the user redraws the region in mid-print (API update, shrinking allowed): arbitrary new geometry, same id
            old = pipe.regions[0]
            new = pl.RegionSpec(old.kind, tuple(w.real("rep%d_%d" % (k, i)) for i in range(len(old.params))), old.id)
            pipe.regions[0] = new
            pipe.state.replaceRegion(new.build(w.env), False)
            continue
        text, _ = pl.render(w, shape, pipe.k)
        rec = pipe.begin(text)
        if shape.code in ("G2", "G3") and not pipe.V.abs_xyz:
            pl.skip(w, "arc in relative mode")
        leaving = alg.and_(rec.ep_before, alg.not_(rec.dest_inside)) if rec.is_move else False
        entering = alg.and_(alg.not_(rec.ep_before), rec.dest_inside) if rec.is_move else False
        if rec.is_move and not pipe.V.abs_xyz and KF_REL_EXIT in w.excluded:
            w.assume(alg.not_(leaving))
        if rec.is_move and KF_ENTER_Z in w.excluded and any(l == "Z" for l, _ in shape.words):
            w.assume(alg.not_(entering))
        zp_before = pipe.P.z
        rec = pipe.finish()
        if rec.raised is not None:
            w.fail("handler-raised", "%s raised %r" % (text, rec.raised))
            return
        if not rec.is_move or rec.vm.valid is not True:
            continue    # not a move (an arc without centre offset is rejected by the firmware)
        V, P = pipe.V, pipe.P
        outside = alg.not_(rec.dest_inside)
        modes_ok = (V.abs_xyz == P.abs_xyz) and (V.u == P.u)
        sync = alg.and_(alg.eq(P.x, V.x), alg.eq(P.y, V.y), alg.eq(P.z, V.z), modes_ok)
        ok = w.check(alg.implies(outside, sync), "resynchronised-after-leaving",
                     "step %d %r -> %r ; modes_ok=%s" % (k, text, rec.emitted, modes_ok))
        if rec.excluding_before and not rec.excluding_after:
            w.cover("episode-left")
            ztravel = alg.max_(zp_before, V.z)
            conds = []
            for m in rec.motions:
                moved = alg.or_(alg.ne(m.dx, 0), alg.ne(m.dy, 0))
                conds.append(alg.implies(moved, alg.and_(alg.eq(m.dz, 0), alg.eq(m.z_after, ztravel))))
            ok2 = w.check(alg.implies(alg.and_(rec.ep_before, outside), alg.and_(*conds) if conds else True),
                          "travel-at-higher-z", "step %d %r -> %r" % (k, text, rec.emitted))
        else:
            ok2 = True
        if ok is False or ok2 is False:
            return


SCENARIOS = {}


def scen_ind(w, start="outside", kinds="rd"):
    from harness import inductive
    inductive.step(w, "C03", start, kinds)

META = {
    "assumptions": [
        "floats modelled as reals; hypot by contract (polynomial)",
        "planArc/computeArcCenterOffsets stubbed; arcs only in absolute mode",
        "exclusion enabled throughout; logger stubbed; numbers enter through numeric-key literals",
        "prologue: G28 then one positioning move to an arbitrary point outside the region",
    ],
    "outside_claim": ["G28, G92 X/Y/Z, M206 while an episode is open (property text); G92 X/Y/Z at all (see C02/C08 finding)",
                      "programs longer than K", "more than one region (the region test itself is C17/C01)"],
}


def plan(tier):
    out = []

    def add(name, template, kinds="r"):
        names = template.split(",")
        cov = sorted(set("shape-" + s.tag for n in names for s in ALPHABET[n]))
        SCENARIOS[name] = scen
        out.append(Scenario(name, scen, params={"template": template, "kinds": kinds},
                            cover=cov + ["episode-left"],
                            bounds={"K": len(names), "R": 1, "region kinds": kinds,
                                    "alphabet per position": {n: [s.tag for s in ALPHABET[n]] for n in set(names)}},
                            excludable=[KF_REL_EXIT, KF_ENTER_Z]))
    add("k3-episode", "enter,inside,leave", "rd")
    add("k3-frame-episode", "frame,enter,leave")
    add("k2-arcs", "arcs,arcs", "rd")
    add("k3-any", "any,any,any")
    from harness import inductive
    for start in ("outside", "inside"):
        SCENARIOS["ind-" + start] = scen_ind
        out.append(Scenario("ind-" + start, scen_ind, params={"start": start, "kinds": "rd"},
                            cover=["shape-" + s.tag for s in inductive.SHAPES] + ["ends-inside", "ends-outside"],
                            bounds={"K": "1 step from an arbitrary invariant state (all history lengths)",
                                    "alphabet": [s.tag for s in inductive.SHAPES]},
                            excludable=inductive.EXCLUDABLE))
    if tier == "thorough":
        add("k4-frame-episode", "frame,enter,inside,leave", "rd")
        add("k4-episode-2", "enter,inside,inside,leave")
        add("k3-arcs", "enter,arcs,arcs", "rd")
    return out


plan("thorough")
