"""C11 -- filtering is gated by the print lifecycle.

Scheme BSR over the real plugin: a prefix produces plugin states with residue (never printed; printing; printing
and excluding with a pending deferred code; disabled exclusion), then K steps chosen from OctoPrint events
(the five end events, PrintStarted, PrintPaused, PrintResumed, FileSelected, an unrelated event, and
SettingsUpdated with the clear-after-print setting flipped).  After every step the oracle's lifecycle machine
is compared with the plugin through its public surface, and while the oracle says "no print active" the three
hooks are probed: G-code hook returns None for a move into a region and for an unknown code, the @-command hook
sends nothing, the script hook returns None, and none of the probes changes the tracked state (deep comparison).
"""
from symx import alg
from harness.base import Scenario
from harness import pipeline as pl, plugin_util as pu
from harness.registry import _get_list, _same_list, _true_list

PROPERTY = "C11"

END_EVENTS = ["PRINT_DONE", "PRINT_FAILED", "PRINT_CANCELLING", "PRINT_CANCELLED", "ERROR"]
STEPS = END_EVENTS + ["PRINT_STARTED", "PRINT_PAUSED", "PRINT_RESUMED", "FILE_SELECTED", "FILE_SELECTED_SD", "CONNECTED",
                      "SETTINGS_FLIP_CLEAR", "ADD_REGION"]


def snapshot(state):
    """Behaviour-relevant tracked state as plain data (public attributes of the state object)."""
    pos = state.position.toDict()
    last = None if state.lastPosition is None else state.lastPosition.toDict()
    lr = None if state.lastRetraction is None else dict(vars(state.lastRetraction))
    return {"position": pos, "lastPosition": last, "lastRetraction": lr, "excluding": state.excluding,
            "enabled": state.isExclusionEnabled(), "feedRate": state.feedRate,
            "feedRateUnitMultiplier": state.feedRateUnitMultiplier,
            "pending": [(k, (dict(v) if isinstance(v, dict) else v)) for k, v in state.pendingCommands.items()]}


def same_data(a, b):
    if isinstance(a, dict) and isinstance(b, dict):
        if set(a) != set(b):
            return False
        cs = [same_data(a[k], b[k]) for k in a]
        return alg.and_(*cs) if cs else True
    if isinstance(a, (list, tuple)) and isinstance(b, (list, tuple)):
        if len(a) != len(b):
            return False
        cs = [same_data(x, y) for x, y in zip(a, b)]
        return alg.and_(*cs) if cs else True
    if a is None or b is None or isinstance(a, (str, bool)) or isinstance(b, (str, bool)):
        return a is b or a == b
    return alg.eq(a, b)


def scen(w, K=2):
    clear = w.flag("clearAfter")
    plugin = pu.make_plugin(w, clear_after=clear, extended=[{"gcode": "M204", "mode": "merge", "description": ""}],
                            exit_="M117 out\n")
    Events = pu.events(w)
    pipe = pl.Pipe(w, plugin=plugin, track_p=False)
    spec = pl.fresh_region(w, "rect", "r0")
    pipe.add_region(spec)
    active = False
    nregions = 1
    prefix = w.choose(4, "prefix")      # 0 never printed; 1 printing; 2 printing+excluding+pending; 3 printing, disabled
    w.cover("prefix-%d" % prefix)
    comm = pu.CommStub()
    if prefix >= 1:
        pu.fire(plugin, "PRINT_STARTED")
        active = True
        pipe.prologue()
        if prefix == 2:
            rec = pipe.begin("G1 X%s Y%s" % (w.key(w.real("in_X")), w.key(w.real("in_Y"))))
            w.assume(rec.dest_inside)
            pipe.finish(catch=False)
            pipe.feed("M204 P%s" % w.key(w.real("m_P")), catch=False)
        if prefix == 3:
            plugin.handleAtCommandQueuing(comm, "queuing", "ExcludeRegion", "off")
    for k in range(K):
        name = STEPS[w.choose(len(STEPS), "step")]
        w.cover("step-" + name)
        pipe.program.append("<%s>" % name)
        w.note("program", list(pipe.program))
        before_list = _true_list(plugin)
        if name == "ADD_REGION":
            # a user draws a region (API request); regions may be defined at any time
            plugin.on_api_command("addExcludeRegion", {"type": "RectangularRegion", "x1": 300 + k, "y1": 300,
                                                       "x2": 310 + k, "y2": 310, "id": "added-%d" % k})
            nregions += 1
            if not w.check(len(_true_list(plugin)) == len(before_list) + 1, "region-can-be-added", str(pipe.program)):
                return
            continue
        if name == "FILE_SELECTED_SD":
            pu.fire(plugin, "FILE_SELECTED", pu.FILE_SD)
        elif name == "SETTINGS_FLIP_CLEAR":
            clear = not clear
            plugin._verif_values["clearRegionsAfterPrintFinishes"] = clear
            pu.fire(plugin, "SETTINGS_UPDATED")
        else:
            pu.fire(plugin, name)
        # ---- lifecycle machine (oracle) ----
        cleared = False
        if name == "PRINT_STARTED":
            active = True
        elif name in END_EVENTS:
            active = False
            cleared = clear
        elif name in ("FILE_SELECTED", "FILE_SELECTED_SD"):
            cleared = True
        desc = "program %r (clear-after-print=%s)" % (pipe.program, clear)
        if not w.check(bool(plugin.isActivePrintJob) == active, "active-flag-follows-lifecycle", desc):
            return
        after_list = _true_list(plugin)
        if cleared:
            nregions = 0
            if not w.check(len(after_list) == 0, "regions-removed", desc):
                return
        else:
            if not w.check(_same_list(before_list, after_list), "regions-kept", desc):
                return
        if active:
            continue
        # ---- probes while no print is active: nothing altered, nothing tracked, nothing contributed ----
        snap = snapshot(plugin.state)
        c2 = pu.CommStub()
        px, py = w.real("probe%d_X" % k), w.real("probe%d_Y" % k)
        if nregions and len(_true_list(plugin)) and _true_list(plugin)[0]["id"] == "r0":
            w.assume(spec.contains(w, px, py))
        r1 = plugin.handleGcodeQueuing(c2, "queuing", "G1 X%s Y%s E5" % (w.key(px), w.key(py)), None, "G1")
        r2 = plugin.handleGcodeQueuing(c2, "queuing", "G91", None, "G91")
        r3 = plugin.handleGcodeQueuing(c2, "queuing", "M204 P7", None, "M204")
        plugin.handleAtCommandQueuing(c2, "queuing", "ExcludeRegion", "off")
        plugin.handleAtCommandQueuing(c2, "queuing", "ExcludeRegion", "on")
        r4 = plugin.handleScriptHook(c2, "gcode", "afterPrintDone")
        ok = r1 is None and r2 is None and r3 is None and r4 is None and not c2.sent
        if not w.check(ok, "hooks-inert-while-no-print-active",
                       "%s -> gcode %r %r %r, script %r, sent %r" % (desc, r1, r2, r3, r4, c2.sent)):
            return
        if not w.check(same_data(snap, snapshot(plugin.state)), "nothing-tracked-while-no-print-active", desc):
            return
        w.cover("probed-inactive")


SCENARIOS = {"events": scen}

META = {
    "assumptions": ["OctoPrint injections stubbed; events are delivered one at a time (no concurrency)",
                    "plugin pre-states are produced by four prefixes (never printed / printing / printing inside an episode "
                    "with a pending deferred code / printing with exclusion disabled)"],
    "outside_claim": ["more than K events after the prefix", "threads: OctoPrint may deliver events and hooks from different "
                      "threads; interleavings inside one handler are not modelled"],
}


def plan(tier):
    K = 3 if tier == "quick" else 4
    return [Scenario("events", scen, params={"K": K},
                     cover=["probed-inactive"] + ["step-" + s for s in STEPS] + ["prefix-%d" % i for i in range(4)],
                     bounds={"events after the prefix": K, "event alphabet": STEPS})]
