"""Inductive step for the episode properties C01 and C03 (scheme IND of DESIGN section 7).

ONE command of any shape is executed from an ARBITRARY filter state that satisfies the coupling invariant with the
two reference printers (see Pipe.havoc_not_excluding / Pipe.havoc_excluding).  Obligations: the property's step
obligation, and the invariant is re-established.  Together with the base case (the invariant holds after the G28
prologue; shown by the BSR scenarios of the same check) this covers programs of every length over the alphabet.

Invariant  Inv(F, V, P):
  outside an episode :  tracked frame == V's frame,  P's X/Y/Z == V's,  P's mode and units == V's,
                        filter not excluding  <=>  oracle episode flag clear
  inside an episode  :  tracked frame == V's frame,  P's X/Y fixed where the tool was parked,
                        P's Z == the Z recorded at entry,  P's mode and units == V's,  filter excluding, flag set
"""
from __future__ import annotations

from symx import alg
from harness import pipeline as pl
from harness.pipeline import S

SHAPES = [S("G1", "X# Y#"), S("G1", "X# Y# E#"), S("G0", "X#"), S("G1", "Y#"), S("G1", "Z#"), S("G1", "X# Y# Z# E#"),
          S("G1", "E#"), S("G1", "F#"), S("G10", ""), S("G11", ""), S("G20"), S("G21"), S("G90"), S("G91"),
          S("G92", "E#"), S("M105"), S("G4", "P#"), S("M204", "P#"), S("G2", "X# Y# I# J#"), S("G3", "X# Y# I# J# E#")]

KF_REL_EXIT = "exit_while_xyz_relative"
KF_ENTER_Z = "entering_move_has_z"
KF_SYNTH_E_REL = "synth_e_while_e_relative"
EXCLUDABLE = [KF_REL_EXIT, KF_ENTER_Z, KF_SYNTH_E_REL]


def step(w, which="C01", start="outside", kinds="rd"):
    pipe = pl.Pipe(w, False, extended={"G4": "exclude", "M204": "merge"})
    kind = "rect" if (kinds == "r" or (kinds == "rd" and w.choose(2, "rkind") == 0)) else "disc"
    pipe.add_region(pl.fresh_region(w, kind, "r0"))
    if start == "inside":
        pipe.havoc_excluding()
    else:
        pipe.havoc_not_excluding()
    V, P, st = pipe.V, pipe.P, pipe.state
    shape = SHAPES[w.choose(len(SHAPES), "shape")]
    w.cover("shape-" + shape.tag)
    text, _ = pl.render(w, shape, 0)
    px0, py0, pz0 = P.x, P.y, P.z
    rec = pipe.begin(text)
    if shape.code in ("G2", "G3") and not V.abs_xyz:
        pl.skip(w, "arc in relative mode")
    leaving = alg.and_(rec.ep_before, alg.not_(rec.dest_inside)) if rec.is_move else False
    entering = alg.and_(alg.not_(rec.ep_before), rec.dest_inside) if rec.is_move else False
    if rec.is_move and not V.abs_xyz and KF_REL_EXIT in w.excluded:
        w.assume(alg.not_(leaving))
    if rec.is_move and KF_ENTER_Z in w.excluded and any(l == "Z" for l, _ in shape.words):
        w.assume(alg.not_(entering))
    rec = pipe.finish()
    if rec.raised is not None:
        w.fail("handler-raised", "%s raised %r" % (text, rec.raised))
        return
    if rec.is_move and rec.vm.valid is not True:
        return          # rejected arc: not a move
    desc = "inductive step from %s an episode: %r -> %r" % (start, text, rec.emitted)
    if which == "C01":
        conds = []
        for m in rec.motions:
            moved = alg.or_(alg.ne(m.dx, 0), alg.ne(m.dy, 0))
            conds.append(alg.implies(moved, alg.not_(pipe.inside(m.x_after, m.y_after))))
        if not w.check(alg.and_(*conds) if conds else True, "no-motion-into-region", desc):
            return
        still = [alg.and_(alg.eq(m.dx, 0), alg.eq(m.dy, 0), alg.eq(m.dz, 0), alg.le(m.dfil, 0)) for m in rec.motions]
        if not w.check(alg.implies(rec.ep_after, alg.and_(*still) if still else True),
                       "no-motion-no-extrusion-inside-episode", desc):
            return
    else:
        if rec.is_move:
            outside = alg.not_(rec.dest_inside)
            sync = alg.and_(alg.eq(P.x, V.x), alg.eq(P.y, V.y), alg.eq(P.z, V.z), V.abs_xyz == P.abs_xyz, V.u == P.u)
            if not w.check(alg.implies(outside, sync), "resynchronised-after-leaving", desc):
                return
            if rec.excluding_before and not rec.excluding_after:
                ztravel = alg.max_(pz0, V.z)
                conds = []
                for m in rec.motions:
                    moved = alg.or_(alg.ne(m.dx, 0), alg.ne(m.dy, 0))
                    conds.append(alg.implies(moved, alg.and_(alg.eq(m.dz, 0), alg.eq(m.z_after, ztravel))))
                if not w.check(alg.implies(alg.and_(rec.ep_before, outside), alg.and_(*conds) if conds else True),
                               "travel-at-higher-z", desc):
                    return
    # ---- the invariant is re-established
    frame = pipe.tracked_equals_file(include_e=True)
    modes = (P.abs_xyz == V.abs_xyz) and (P.u == V.u)
    if rec.excluding_after:
        w.cover("ends-inside")
        lp = st.lastPosition
        parked = alg.and_(alg.eq(P.x, px0), alg.eq(P.y, py0)) if start == "inside" else alg.and_(
            alg.eq(P.x, px0), alg.eq(P.y, py0))
        # the Z clause belongs to C03 (Z restore on leaving); C01's obligations do not depend on it
        zclause = (lp is not None and alg.eq(P.z, lp.Z_AXIS.current)) if which == "C03" else True
        inv = alg.and_(frame, modes, parked, zclause, rec.ep_after)
    else:
        w.cover("ends-outside")
        inv = alg.and_(frame, modes, alg.eq(P.x, V.x), alg.eq(P.y, V.y), alg.eq(P.z, V.z), alg.not_(rec.ep_after))
    w.check(inv, "invariant-re-established", desc)
