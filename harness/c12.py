"""C12 -- excluded area never shrinks during an active print unless explicitly allowed.

Scheme IND: one API request from an arbitrary registry (see harness/registry.py).  The point (px,py)
is a solver variable, so "every point that was excluded stays excluded" is decided for all points.
Sequences of requests follow by induction (the only invariant needed is "ids distinct", which C13
re-establishes after every step).
"""
from harness.base import Scenario
from harness import registry

PROPERTY = "C12"


def step(w, R=2):
    registry.api_step(w, "C12", R, events=False)


SCENARIOS = {"api-step": step}

META = {
    "assumptions": [
        "floats modelled as reals; hypot by its contract (polynomial encoding)",
        "flask_login.current_user, flask.jsonify, settings, plugin manager, logger are stubs",
        "registry pre-state: R regions built by the real constructors with arbitrary real geometry and distinct ids",
    ],
    "outside_claim": ["non-finite geometry", "toggling the setting or selecting a file mid-print (not API requests)",
                      "more than R regions in the registry (the request touches at most one region; others are frame)"],
}


def plan(tier):
    R = 2 if tier == "quick" else 3
    return [Scenario("api-step", step, params={"R": R},
                     cover=["restricted-mode", "refused", "step-0", "step-1", "step-2", "step-3", "during-print-1",
                            "during-print-2", "during-print-3"],
                     nra_mode="oneshot", bounds={"regions": "0..%d" % R, "requests": "1 (inductive step)", "geometry": "unbounded reals"})]
