"""C05 -- retractions are never doubled and are recovered before printing resumes (see harness/retraction.py)."""
from harness.base import Scenario
from harness import retraction as rt

PROPERTY = "C05"


def scen(w, **kw):
    rt.scen(w, which="C05", **kw)


SCENARIOS = {}

META = {
    "assumptions": [
        "floats modelled as reals; absolute extrusion mode; logger stubbed; numbers through numeric-key literals",
        "programs are built from roles (RET/REC/PRINT/TRAVEL/...) so that retract/recover cycles are matched and of one "
        "symbolic length a>0 (the property's quantifier); every number is a solver variable",
        "prologue: G28, then one extruding positioning move to an arbitrary point outside the region",
    ],
    "outside_claim": ["relative extrusion mode (M83 / G91 with G90-influences-extruder)", "unequal or unmatched cycles",
                      "mixing E-only and firmware retraction in one program", "programs longer than K", "more than one region"],
}


def plan(tier):
    out = []

    def add(name, **params):
        SCENARIOS[name] = scen
        roles = params.get("roles", ",".join(rt.ROLES_FW if params.get("firmware") else rt.ROLES_E)).split(",")
        out.append(Scenario(name, scen, params=params,
                            cover=["role-" + r for r in roles] + ["episode-open", "filter-synthesised-commands"],
                            bounds=dict(params, roles=roles), excludable=rt.EXCLUDABLE))
    add("e-only-k3", K=3, firmware=0, kinds="rd")
    add("e-only-k5-core", K=5, firmware=0, kinds="r", roles="RET,REC,PRINT,TRAVEL,TRAVELE")
    add("e-only-k4-spelling", K=4, firmware=0, kinds="r", roles="PRINTDOT,TRAVEL,RET,REC")
    add("firmware-k4", K=4, firmware=1, kinds="r", roles="FRET,FREC,FRET1,FREC1,PRINT,TRAVEL")
    if tier == "thorough":
        add("e-only-k4", K=4, firmware=0, kinds="rd")
        add("firmware-k4-all", K=4, firmware=1, kinds="r")
        add("e-only-k5", K=5, firmware=0, kinds="r")
        add("e-only-k6-core", K=6, firmware=0, kinds="r", roles="RET,REC,PRINT,TRAVEL")
        add("firmware-k5", K=5, firmware=1, kinds="r", roles="FRET,FREC,FRET1,FREC1,PRINT,TRAVEL")
    return out


plan("thorough")
