"""C20 -- offline stream filtering equals live filtering and is isolated.

Scheme REL.  A live plugin L is brought into a state by a prefix (printing / printing inside an episode /
printing with exclusion disabled).  A StreamProcessor is created from L's handlers.  A twin plugin T is produced by
replaying the same prefix on a second, independent plugin instance (not by copying), and stands for "what the live
queuing hooks would do".  A file of 1..3 lines is generated from templates: command with symbolic numbers, optional
indentation, line number, checksum, trailing blanks and comment; blank, whitespace-only, comment-only and @-command
lines; one EOL style per file; last line with or without terminator.
Per line: the stream side gets the raw line; the twin gets what OctoPrint's comm layer would pass (command text
without comment, line number, checksum and surrounding blanks; gcode; or @-command + parameters).
Obligations: twin "unchanged" -> stream returns the line byte for byte; twin list -> the same commands (as RS274
readings) each terminated by the file's EOL; twin "suppress" -> None; after the file L's tracked state is untouched.
"""
import io

from symx import alg
from harness.base import Scenario
from harness import pipeline as pl, plugin_util as pu
from harness.c10 import same_result
from harness.c11 import snapshot, same_data
from harness.pipeline import S

PROPERTY = "C20"

LINES = [S("G1", "X# Y# E#"), S("G1", "X# Y#"), S("G28", "X"), S("G92", "E#"), S("G10", "S1"), S("G11", ""),
         S("M204", "P#"), S("G1", "Z# F#"), S("M105"), S("G20"),
         "BLANK", "WS", "COMMENT", "AT_OFF", "AT_ON", "AT_OTHER"]
LINES_QUICK = [x for x in LINES if not (isinstance(x, pl.Shape) and x.tag in ("G11", "G1ZF", "M105", "G20"))
               and x not in ("WS",)]
EOLS = ["\n", "\r\n"]


def build_prefix(w, plugin, prefix, tag):
    Events = pu.events(w)
    pu.fire(plugin, "PRINT_STARTED")
    pipe = pl.Pipe(w, plugin=plugin, track_p=False)
    pipe.add_region(pl.fresh_region(w, "rect", "r0"))
    pipe.prologue()
    if prefix == 1:
        rec = pipe.begin("G1 X%s Y%s" % (w.key(w.real("in_X")), w.key(w.real("in_Y"))))
        w.assume(rec.dest_inside)
        pipe.finish(catch=False)
    elif prefix == 2:
        plugin.handleAtCommandQueuing(pu.CommStub(), "queuing", "ExcludeRegion", "off")
    return pipe


def scen(w, nlines=2, quick=0):
    LINES_ = LINES_QUICK if quick else LINES
    ext = [{"gcode": "M204", "mode": "merge", "description": ""}]
    prefix = w.choose(3, "prefix")
    w.cover("prefix-%d" % prefix)
    L = pu.make_plugin(w, extended=ext)
    build_prefix(w, L, prefix, "L")
    T = pu.make_plugin(w, extended=ext)
    build_prefix(w, T, prefix, "T")
    SP = w.env.mod("StreamProcessor").StreamProcessor
    proc = SP(io.BytesIO(b""), L.gcodeHandlers)
    if w.flag("live-print-continues"):
        x, y, e = w.real("lc_X"), w.real("lc_Y"), w.real("lc_E")
        L.handleGcodeQueuing(None, "queuing", "G1 X%s Y%s E%s" % (w.key(x), w.key(y), w.key(e)), None, "G1")
        L.handleGcodeQueuing(None, "queuing", "G91", None, "G91")
        w.cover("live-continued")
    live_before = snapshot(L.state)
    eol = EOLS[w.choose(2, "eol")]
    file_lines = []
    deco = w.choose(4, "deco")       # per file: 0 plain, 1 comment, 2 indentation, 3 line number + checksum
    for n in range(nlines):
        item = LINES_[w.choose(len(LINES_), "line")]
        last = (n == nlines - 1)
        term = eol if not (last and w.flag("unterminated")) else ""
        at = None
        cmd = None
        if isinstance(item, str):
            w.cover("line-" + item)
            body = {"BLANK": "", "WS": "   ", "COMMENT": "; just a comment", "AT_OFF": "@ExcludeRegion off",
                    "AT_ON": "@ExcludeRegion  on", "AT_OTHER": "@Other thing"}[item]
            if item.startswith("AT_"):
                parts = body[1:].split(None, 1)
                at = (parts[0], parts[1] if len(parts) > 1 else "")
            line = body + term
        else:
            w.cover("line-" + item.tag)
            cmd, _ = pl.render(w, item, 500 + n)
            if deco == 0:
                line = cmd + term
            elif deco == 1:
                line = cmd + " ; a comment" + term
            elif deco == 2:
                line = "  " + cmd + term
            else:
                line = "N7 " + cmd + "*11" + term
        file_lines.append(line)
        w.note("program", [repr(x) for x in file_lines])
        # ---- stream side
        try:
            out = proc.process_line(line)
        except Exception as ex:
            w.fail("stream-raises", "file %r: %r" % (file_lines, ex))
            return
        # ---- twin: what the live hooks would do for the same line
        desc = "prefix=%d file=%r -> stream %r" % (prefix, file_lines, out)
        if cmd is not None:
            from oracles import rs274
            c = rs274.read(cmd)
            tres = T.handleGcodeQueuing(None, "queuing", cmd, None, c.code, None if c.sub is None else str(c.sub))
            if tres is None:
                ok = (out == line)
            elif tres == (None,):
                ok = out is None
            else:
                use_eol = term or eol
                ok = isinstance(out, str) and out.endswith(use_eol)
                if ok:
                    got = out[:-len(use_eol)].split(use_eol)
                    ok = same_result(w, got, list(tres))
            if not w.check(ok, "stream-equals-live-hook", "%s ; live hook %r" % (desc, tres)):
                return
        elif at is not None:
            comm = pu.CommStub()
            T.handleAtCommandQueuing(comm, "queuing", at[0], at[1])
            if comm.sent:
                use_eol = term or eol
                ok = isinstance(out, str) and out.endswith(use_eol)
                if ok:
                    ok = same_result(w, out[:-len(use_eol)].split(use_eol), list(comm.sent))
            else:
                # nothing to send: the line is either dropped (handled action) or reproduced unchanged
                ok = out is None or out == line
            if not w.check(ok, "stream-equals-live-at-command", "%s ; live sends %r" % (desc, comm.sent)):
                return
        else:
            if not w.check(out == line, "untouched-line-byte-for-byte", desc):
                return
    w.check(same_data(live_before, snapshot(L.state)), "live-state-untouched",
            "prefix=%d file=%r" % (prefix, file_lines))


ARC_LINES = ["G2 X2 Y0 I1 J0 E0.5", "G3 X0.2 Y0.2 I0 J0.2 E0.5", "G2 X0.2 Y0 I0.1 J0", "G3 X0 Y0 I0.25 J0 E1"]


def scen_arc(w):
    """(wrapper) the arc's numbers are concrete: run the trigonometry of planArc in CPython floats on both sides instead
    of through the symbolic-pi contracts (which hand every call fresh, merely constrained values)."""
    if not w.symbolic:
        return _scen_arc(w)
    from symx import shims
    old = shims.SYMBOLIC_PI
    shims.SYMBOLIC_PI = False
    try:
        return _scen_arc(w)
    finally:
        shims.SYMBOLIC_PI = old


def _scen_arc(w):
    """Arcs through the REAL planArc on both sides (no stub): the arc's numbers are concrete (so the trigonometry runs
    in floats), the region, the units prefix and the following move are symbolic.  The live side is a plugin that
    processed the same prefix through its hooks; the stream side is a StreamProcessor created from the live handlers."""
    ext = [{"gcode": "M204", "mode": "merge", "description": ""}]
    inch = w.flag("live-in-inches")
    w.cover("live-inch" if inch else "live-mm")
    kind = "rect" if w.choose(2, "rkind") == 0 else "disc"
    w.cover("region-" + kind)
    spec = pl.fresh_region(w, kind, "r0")
    plugins = []
    for tag in ("L", "T"):
        plugin = pu.make_plugin(w, extended=ext)
        pu.fire(plugin, "PRINT_STARTED")
        pipe = pl.Pipe(w, plugin=plugin, track_p=False, arc_stub=False)
        pipe.add_region(spec)
        plugin.handleGcodeQueuing(None, "queuing", "G28", None, "G28")
        if inch:
            plugin.handleGcodeQueuing(None, "queuing", "G20", None, "G20")
        plugins.append(plugin)
    L, T = plugins
    # the tool starts at the home position (0, 0): keep it outside the region so that no episode is open yet
    w.assume(alg.not_(spec.contains(w, 0, 0)))
    SP = w.env.mod("StreamProcessor").StreamProcessor
    proc = SP(io.BytesIO(b""), L.gcodeHandlers)
    live_before = snapshot(L.state)
    arc = ARC_LINES[w.choose(len(ARC_LINES), "arc")]
    w.cover("arc-%d" % ARC_LINES.index(arc))
    follow, _ = pl.render(w, S("G1", "X# Y# E#"), 700)
    file_lines = []
    from oracles import rs274
    for cmd in (arc, follow):
        line = cmd + "\n"
        file_lines.append(line)
        w.note("program", [repr(x) for x in file_lines])
        try:
            out = proc.process_line(line)
        except Exception as ex:
            w.fail("stream-raises", "file %r: %r" % (file_lines, ex))
            return
        c = rs274.read(cmd)
        tres = T.handleGcodeQueuing(None, "queuing", cmd, None, c.code, None)
        desc = "inch=%s file=%r -> stream %r ; live hook %r" % (inch, file_lines, out, tres)
        which = "arc" if cmd is arc else "follow"
        if tres is None:
            ok = (out == line)
            w.cover(which + "-forwarded")
        elif tres == (None,):
            ok = out is None
            w.cover(which + "-excluded")
        else:
            ok = isinstance(out, str) and out.endswith("\n")
            if ok:
                ok = same_result(w, out[:-1].split("\n"), list(tres))
            w.cover(which + ("-forwarded" if list(tres) == [cmd] else "-rewritten"))
        if not w.check(ok, "stream-equals-live-hook", desc):
            return
    w.check(same_data(live_before, snapshot(L.state)), "live-state-untouched", "file=%r" % (file_lines,))


SCENARIOS = {"file": scen, "arc-file": scen_arc}

META = {
    "assumptions": ["process_line is driven directly with text lines (OctoPrint's LineProcessorStream byte handling is not "
                    "executed)", "the live comm layer is modelled as: strip comment, line number, checksum and surrounding "
                    "blanks, pass gcode/subcode; @-lines split at the first blank", "one EOL style per file",
                    "line-number/checksum decoration uses fixed digits (the parser on arbitrary text is C18's subject)"],
    "outside_claim": ["files longer than 3 lines", "mixed EOL styles", "bytes input"],
}


def plan(tier):
    n = 2
    q = 1 if tier == "quick" else 0
    cov = ["prefix-0", "prefix-1", "prefix-2", "live-continued"] + ["line-" + (x if isinstance(x, str) else x.tag)
                                                    for x in (LINES_QUICK if q else LINES)]
    return [Scenario("file", scen, params={"nlines": n, "quick": q}, cover=cov, bounds={"lines": n, "line templates": len(LINES),
                                                                          "decorations": 4, "eol styles": 2}),
            Scenario("arc-file", scen_arc, params={},
                     cover=["live-inch", "live-mm", "region-rect", "region-disc", "arc-0", "arc-1", "arc-2", "arc-3", "arc-forwarded", "arc-excluded",
                            "follow-forwarded", "follow-excluded", "follow-rewritten"],
                     bounds={"lines": 2, "arc": "one of %d concrete arcs through the real planArc, then one G1 with "
                                                "symbolic numbers" % len(ARC_LINES), "regions": "1 symbolic rectangle or disc",
                             "live prefix": "G28, optionally G20, through the live hooks"})]
