"""C20 -- offline stream filtering equals live filtering and is isolated.

Scheme REL.  A live plugin L is brought into a state by a prefix (printing / printing inside an episode /
printing with exclusion disabled).  A StreamProcessor is created from L's handlers.  A twin plugin T is produced by
replaying the same prefix on a second, independent plugin instance (not by copying), and stands for "what the live
queuing hooks would do".  A file of 1..3 lines is generated from templates: command with symbolic numbers, optional
indentation, line number, checksum, trailing blanks and comment; blank, whitespace-only, comment-only and @-command
lines; one EOL style per file; last line with or without terminator.
Per line: the stream side gets the raw line; the twin gets what OctoPrint's comm layer would pass (command text
without comment, line number, checksum and surrounding blanks; gcode; or @-command + parameters).
Obligations: twin "unchanged" -> stream returns the line byte for byte; twin list -> the same commands (as RS274
readings) each terminated by the file's EOL; twin "suppress" -> None; after the file L's tracked state is untouched.
"""
import io

from symx import alg
from harness.base import Scenario
from harness import pipeline as pl, plugin_util as pu
from harness.c10 import same_result
from harness.c11 import snapshot, same_data
from harness.pipeline import S

PROPERTY = "C20"

LINES = [S("G1", "X# Y# E#"), S("G1", "X# Y#"), S("G28", "X"), S("G92", "E#"), S("G10", "S1"), S("G11", ""),
         S("M204", "P#"), S("G1", "Z# F#"), S("M105"), S("G20"),
         "BLANK", "WS", "COMMENT", "AT_OFF", "AT_ON", "AT_OTHER"]
LINES_QUICK = [x for x in LINES if not (isinstance(x, pl.Shape) and x.tag in ("G11", "G1ZF", "M105", "G20"))
               and x not in ("WS",)]
EOLS = ["\n", "\r\n"]


def build_prefix(w, plugin, prefix, tag):
    Events = pu.events(w)
    pu.fire(plugin, "PRINT_STARTED")
    pipe = pl.Pipe(w, plugin=plugin, track_p=False)
    pipe.add_region(pl.fresh_region(w, "rect", "r0"))
    pipe.prologue()
    if prefix == 1:
        rec = pipe.begin("G1 X%s Y%s" % (w.key(w.real("in_X")), w.key(w.real("in_Y"))))
        w.assume(rec.dest_inside)
        pipe.finish(catch=False)
    elif prefix == 2:
        plugin.handleAtCommandQueuing(pu.CommStub(), "queuing", "ExcludeRegion", "off")
    return pipe


def scen(w, nlines=2, quick=0):
    LINES_ = LINES_QUICK if quick else LINES
    ext = [{"gcode": "M204", "mode": "merge", "description": ""}]
    prefix = w.choose(3, "prefix")
    w.cover("prefix-%d" % prefix)
    L = pu.make_plugin(w, extended=ext)
    build_prefix(w, L, prefix, "L")
    T = pu.make_plugin(w, extended=ext)
    build_prefix(w, T, prefix, "T")
    SP = w.env.mod("StreamProcessor").StreamProcessor
    proc = SP(io.BytesIO(b""), L.gcodeHandlers)
    if w.flag("live-print-continues"):
        x, y, e = w.real("lc_X"), w.real("lc_Y"), w.real("lc_E")
        L.handleGcodeQueuing(None, "queuing", "G1 X%s Y%s E%s" % (w.key(x), w.key(y), w.key(e)), None, "G1")
        L.handleGcodeQueuing(None, "queuing", "G91", None, "G91")
        w.cover("live-continued")
    live_before = snapshot(L.state)
    eol = EOLS[w.choose(2, "eol")]
    file_lines = []
    deco = w.choose(4, "deco")       # per file: 0 plain, 1 comment, 2 indentation, 3 line number + checksum
    for n in range(nlines):
        item = LINES_[w.choose(len(LINES_), "line")]
        last = (n == nlines - 1)
        term = eol if not (last and w.flag("unterminated")) else ""
        at = None
        cmd = None
        if isinstance(item, str):
            w.cover("line-" + item)
            body = {"BLANK": "", "WS": "   ", "COMMENT": "; just a comment", "AT_OFF": "@ExcludeRegion off",
                    "AT_ON": "@ExcludeRegion  on", "AT_OTHER": "@Other thing"}[item]
            if item.startswith("AT_"):
                parts = body[1:].split(None, 1)
                at = (parts[0], parts[1] if len(parts) > 1 else "")
            line = body + term
        else:
            w.cover("line-" + item.tag)
            cmd, _ = pl.render(w, item, 500 + n)
            if deco == 0:
                line = cmd + term
            elif deco == 1:
                line = cmd + " ; a comment" + term
            elif deco == 2:
                line = "  " + cmd + term
            else:
                line = "N7 " + cmd + "*11" + term
        file_lines.append(line)
        w.note("program", [repr(x) for x in file_lines])
        # ---- stream side
        try:
            out = proc.process_line(line)
        except Exception as ex:
            w.fail("stream-raises", "file %r: %r" % (file_lines, ex))
            return
        # ---- twin: what the live hooks would do for the same line
        desc = "prefix=%d file=%r -> stream %r" % (prefix, file_lines, out)
        if cmd is not None:
            from oracles import rs274
            c = rs274.read(cmd)
            tres = T.handleGcodeQueuing(None, "queuing", cmd, None, c.code, None if c.sub is None else str(c.sub))
            if tres is None:
                ok = (out == line)
            elif tres == (None,):
                ok = out is None
            else:
                use_eol = term or eol
                ok = isinstance(out, str) and out.endswith(use_eol)
                if ok:
                    got = out[:-len(use_eol)].split(use_eol)
                    ok = same_result(w, got, list(tres))
            if not w.check(ok, "stream-equals-live-hook", "%s ; live hook %r" % (desc, tres)):
                return
        elif at is not None:
            comm = pu.CommStub()
            T.handleAtCommandQueuing(comm, "queuing", at[0], at[1])
            if comm.sent:
                use_eol = term or eol
                ok = isinstance(out, str) and out.endswith(use_eol)
                if ok:
                    ok = same_result(w, out[:-len(use_eol)].split(use_eol), list(comm.sent))
            else:
                # nothing to send: the line is either dropped (handled action) or reproduced unchanged
                ok = out is None or out == line
            if not w.check(ok, "stream-equals-live-at-command", "%s ; live sends %r" % (desc, comm.sent)):
                return
        else:
            if not w.check(out == line, "untouched-line-byte-for-byte", desc):
                return
    w.check(same_data(live_before, snapshot(L.state)), "live-state-untouched",
            "prefix=%d file=%r" % (prefix, file_lines))


SCENARIOS = {"file": scen}

META = {
    "assumptions": ["process_line is driven directly with text lines (OctoPrint's LineProcessorStream byte handling is not "
                    "executed)", "the live comm layer is modelled as: strip comment, line number, checksum and surrounding "
                    "blanks, pass gcode/subcode; @-lines split at the first blank", "one EOL style per file",
                    "line-number/checksum decoration uses fixed digits (the parser on arbitrary text is C18's subject)"],
    "outside_claim": ["files longer than 3 lines", "mixed EOL styles", "bytes input"],
}


def plan(tier):
    n = 2
    q = 1 if tier == "quick" else 0
    cov = ["prefix-0", "prefix-1", "prefix-2", "live-continued"] + ["line-" + (x if isinstance(x, str) else x.tag)
                                                    for x in (LINES_QUICK if q else LINES)]
    return [Scenario("file", scen, params={"nlines": n, "quick": q}, cover=cov, bounds={"lines": n, "line templates": len(LINES),
                                                                          "decorations": 4, "eol styles": 2})]
