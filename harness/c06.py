"""C06 -- deferred G-codes and enter/exit scripts: exactly once per exclusion episode.

Scheme BSR through the real plugin hooks (handleGcodeQueuing / handleAtCommandQueuing / handleScriptHook /
on_event) with enter and exit scripts configured through the settings (so the real _splitGcodeScript runs):

  prologue; entering move; D occurrences of configured codes (modes chosen per code from
  exclude/first/last/merge, parameter values symbolic) interleaved with suppressed moves;
  ONE ending out of {move out, disable @-command, afterPrintDone script hook, PrintStarted event};
  then a second episode (enter, leave) to see that nothing leaks.

Oracle (deferred-code model, written from the property text / README):
  first -> the first instance, at the position of its first occurrence; last -> the last instance, at the
  position of its last occurrence; merge -> one command with the latest value per letter, at the position of
  the last occurrence; exclude -> nothing.  Output of an ending = flush ++ exit script ++ re-sync commands.
"""
from symx import alg
from harness.base import Scenario
from harness import pipeline as pl, plugin_util as pu
from oracles import rs274

PROPERTY = "C06"

MODES = ["exclude", "first", "last", "merge"]
OCC = [("M204", "P# T#"), ("M204", "P#"), ("M204", "T# P#"), ("M73", "P# R#"), ("M73", "R#"), ("M117", "S1")]
ENDINGS = ["move-out", "disable-at-command", "after-print-done", "print-started"]
ENTER_SCRIPT = "M117 entering ; comment\n\n  M300 S440\n"
EXIT_SCRIPT = "M117 leaving\nM300 S880 ; beep\n"
ENTER_LINES = ["M117 entering", "M300 S440"]
EXIT_LINES = ["M117 leaving", "M300 S880"]


def expected_flush(w, modes, seen):
    """seen: [(code, text, [(letter, value)])] in order -> list of ('text', str) / ('merge', code, {letter: value})"""
    order = []      # codes in flush order
    data = {}
    for code, text, words in seen:
        mode = modes[code]
        if mode == "exclude":
            continue
        if mode == "first":
            if code not in data:
                data[code] = ("text", text)
                order.append(code)
        elif mode == "last":
            if code in data:
                order.remove(code)
            data[code] = ("text", text)
            order.append(code)
        else:
            if code in data:
                order.remove(code)
                cur = data[code][2]
            else:
                cur = {}
            for l, v in words:
                cur[l] = v
            data[code] = ("merge", code, cur)
            order.append(code)
    return [data[c] for c in order]


def match_flush(w, got, exp):
    """got: list of command strings; exp: expected_flush(); returns condition (alg)."""
    if len(got) != len(exp):
        return False
    conds = []
    for g, e in zip(got, exp):
        if e[0] == "text":
            if g != e[1]:
                return False
            continue
        c = rs274.read(g)
        if c.malformed or c.code != e[1]:
            return False
        letters = [l for l, _ in c.words]
        if sorted(letters) != sorted(e[2].keys()) or len(set(letters)) != len(letters):
            return False
        for l, vt in c.words:
            if vt is None:
                return False
            conds.append(alg.eq(w.resolve_number(vt), e[2][l]))
    return alg.and_(*conds) if conds else True


def resync_wellformed(resync):
    """exactly one 'G92 E', one 'G0 .. X Y' and at most one 'G0 .. Z' -- nothing replayed from earlier exits"""
    cs = [rs274.read(c) for c in resync]
    g92 = [c for c in cs if c.code == "G92"]
    xy = [c for c in cs if c.code == "G0" and c.has("X") and c.has("Y")]
    z = [c for c in cs if c.code == "G0" and c.has("Z") and not c.has("X")]
    return len(g92) == 1 and len(xy) == 1 and len(z) <= 1 and len(cs) == len(g92) + len(xy) + len(z)


def split_output(out, n_flush, exit_lines):
    """out = flush ++ exit script ++ resync"""
    flush = out[:n_flush]
    rest = out[n_flush:]
    script = rest[:len(exit_lines)]
    resync = rest[len(exit_lines):]
    return flush, script, resync


def scen(w, D=2, scripts=1, full_modes=0):
    if full_modes == 2:
        modes = {"M204": "merge", "M73": "first", "M117": "last"}
    elif full_modes:
        modes = {"M204": MODES[w.choose(4, "modeM204")], "M73": MODES[w.choose(4, "modeM73")],
                 "M117": MODES[w.choose(3, "modeM117")]}
    else:
        modes = {"M204": MODES[w.choose(4, "modeM204")], "M73": ["first", "merge"][w.choose(2, "modeM73")],
                 "M117": "last"}
    ext = [{"gcode": g, "mode": m, "description": ""} for g, m in modes.items()]
    ext.append({"gcode": "G4", "mode": "exclude", "description": ""})
    plugin = pu.make_plugin(w, enter=ENTER_SCRIPT if scripts else None, exit_=EXIT_SCRIPT if scripts else None,
                            extended=ext)
    enter_lines = ENTER_LINES if scripts else []
    exit_lines = EXIT_LINES if scripts else []
    Events = pu.events(w)
    pu.fire(plugin, "PRINT_STARTED")
    pipe = pl.Pipe(w, plugin=plugin, track_p=False)
    pipe.add_region(pl.fresh_region(w, "rect", "r0"))
    pipe.prologue()
    comm = pu.CommStub()

    def enter(with_e=False):
        x, y = w.real("c%d_X" % pipe.k), w.real("c%d_Y" % pipe.k)
        text = "G1 X%s Y%s" % (w.key(x), w.key(y))
        if with_e:
            # the entering move may also retract (Slic3r style wipe): a synthesised E-only retraction may follow
            text += " E%s" % w.key(w.real("c%d_E" % pipe.k))
        rec = pipe.begin(text)
        w.assume(rec.dest_inside)
        rec = pipe.finish(catch=False)
        head, tail = rec.emitted[:len(enter_lines)], rec.emitted[len(enter_lines):]
        tail_ok = all(rs274.read(c).code in ("G92", "G1", "G10") and not rs274.read(c).has("X") and
                      not rs274.read(c).has("Y") for c in tail) and (with_e or not tail) and len(tail) <= 2
        w.check(head == enter_lines and tail_ok, "enter-script-exactly-at-episode-start",
                "entering move %r -> %r, configured enter script %r" % (text, rec.emitted, enter_lines))
        return rec

    def leave():
        x, y = w.real("c%d_X" % pipe.k), w.real("c%d_Y" % pipe.k)
        rec = pipe.begin("G1 X%s Y%s" % (w.key(x), w.key(y)))
        w.assume(alg.not_(rec.dest_inside))
        return pipe.finish(catch=False)

    enter(with_e=w.flag("enter-with-e"))
    seen = []
    between = w.flag("move-between")
    for d in range(D):
        if between and d > 0:
            x, y = w.real("c%d_X" % pipe.k), w.real("c%d_Y" % pipe.k)
            rec = pipe.begin("G1 X%s Y%s" % (w.key(x), w.key(y)))
            w.assume(rec.dest_inside)
            rec = pipe.finish(catch=False)
            w.check(rec.emitted == [], "suppressed-move-emits-nothing", "%r" % (rec.emitted,))
        code, spec = OCC[w.choose(len(OCC), "occ")]
        text, vals = pl.render(w, pl.S(code, spec), pipe.k)
        rec = pipe.begin(text)
        rec = pipe.finish(catch=False)
        w.cover("occ-%s-%s" % (code, modes[code]))
        w.check(rec.emitted == [], "configured-code-withheld-during-episode",
                "%r (mode %s) -> %r" % (text, modes[code], rec.result))
        seen.append((code, text, [(l, v) for l, v in vals]))
    if w.flag("foreign-script-hook-mid-episode"):
        r0 = plugin.handleScriptHook(comm, "gcode", ["afterPrintPaused", "beforePrintResumed"][w.choose(2, "which-hook")])
        w.check(r0 is None and plugin.state.excluding is True, "foreign-script-hook-contributes-nothing", "%r" % (r0,))
        w.cover("foreign-hook")
    exp = expected_flush(w, modes, seen)
    ending = ENDINGS[w.choose(len(ENDINGS), "ending")]
    w.cover("ending-" + ending)
    out = None
    if ending == "move-out":
        rec = leave()
        out = rec.emitted
    elif ending == "disable-at-command":
        plugin.handleAtCommandQueuing(comm, "queuing", "ExcludeRegion", "off")
        out = list(comm.sent)
    elif ending == "after-print-done":
        res = plugin.handleScriptHook(comm, "gcode", "afterPrintDone")
        w.check(isinstance(res, tuple) and len(res) == 2 and res[1] is None and isinstance(res[0], list),
                "script-hook-returns-prefix", "%r" % (res,))
        out = list(res[0]) if isinstance(res, tuple) and isinstance(res[0], list) else []
    else:
        pu.fire(plugin, "PRINT_STARTED")
        pipe.ep = False
        pipe.V.__init__(w, pipe.V.g90e, "V")
        n0 = len(pipe.steps)
        pipe.prologue()
        # the abandoned episode must not surface in the new print: its first commands are forwarded verbatim
        for rec in pipe.steps[n0:]:
            w.check(rec.emitted == [rec.text], "nothing-leaks-into-later-print",
                    "after PrintStarted %r -> %r" % (rec.text, rec.emitted))
    desc = "modes=%s seen=%s ending=%s -> %r" % (modes, [t for _, t, _ in seen], ending, out)
    if out is not None:
        flush, script, resync = split_output(out, len(exp), exit_lines)
        w.check(match_flush(w, flush, exp), "deferred-codes-flushed-exactly-once-in-order", desc)
        w.check(script == exit_lines, "exit-script-once-after-flush-before-resync", desc)
        ok_resync = resync_wellformed(resync)
        w.check(ok_resync, "resync-commands-follow-scripts", desc)
        for line in enter_lines:
            w.check(line not in out, "enter-script-not-repeated", desc)
    # ---- second episode: nothing of the first one may appear
    if ending == "disable-at-command":
        plugin.handleAtCommandQueuing(comm, "queuing", "ExcludeRegion", "on")
    if ending == "after-print-done":
        # the job is over; a further hook call contributes nothing
        res2 = plugin.handleScriptHook(comm, "gcode", "afterPrintDone")
        w.check(res2 is None, "second-script-hook-call-contributes-nothing", "%r" % (res2,))
        return
    enter()
    rec = leave()
    flush2, script2, resync2 = split_output(rec.emitted, 0, exit_lines)
    leaked = [c for c in rec.emitted if rs274.read(c).code in modes]
    leaked = [c for c in leaked if c not in exit_lines]
    w.check(not leaked and script2 == exit_lines and resync_wellformed(resync2), "nothing-leaks-into-later-episode",
            "%s ; second episode output %r" % (desc, rec.emitted))


SCENARIOS = {"episodes": scen}

META = {
    "assumptions": [
        "OctoPrint injections stubbed; enter/exit scripts are two fixed multi-line strings (with comment, blank line, "
        "indentation) run through the real _splitGcodeScript",
        "one rectangular region; numbers through numeric-key literals; logger stubbed",
    ],
    "outside_claim": ["more than D deferred occurrences per episode", "scripts other than the two fixed ones "
                      "(the script splitter on arbitrary text is the parser's subject, C18)"],
}


def plan(tier):
    cov = ["ending-" + e for e in ENDINGS] + ["occ-M204-merge", "occ-M73-first", "occ-M117-last", "occ-M204-exclude",
                                              "occ-M204-first", "occ-M204-last", "foreign-hook"]
    out = [Scenario("episodes", scen, params={"D": 2, "scripts": 1, "full_modes": 0}, cover=cov,
                    bounds={"D": 2, "codes": ["M204", "M73", "M117"], "mode assignments": 8, "endings": ENDINGS})]
    if tier == "thorough":
        out.append(Scenario("episodes-d3", scen, params={"D": 3, "scripts": 1, "full_modes": 2},
                            cover=["ending-" + e for e in ENDINGS] + ["occ-M204-merge", "occ-M73-first", "occ-M117-last"],
                            bounds={"D": 3, "mode assignment": "M204 merge, M73 first, M117 last", "endings": ENDINGS}))
        out.append(Scenario("episodes-all-modes", scen, params={"D": 2, "scripts": 1, "full_modes": 1}, cover=cov,
                            bounds={"D": 2, "mode assignments": 48, "endings": ENDINGS}))
        out.append(Scenario("episodes-noscripts", scen, params={"D": 2, "scripts": 0},
                            cover=["ending-" + e for e in ENDINGS], bounds={"D": 2, "scripts": "none"}))
    return out


SCENARIOS.update({"episodes-d3": scen, "episodes-all-modes": scen, "episodes-noscripts": scen})
