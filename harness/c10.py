"""C10 -- every print starts from a clean tracking state.

Scheme REL: plugin A lives through a history of H steps (commands, @-commands, events, API calls) and then
receives PrintStarted; plugin B is freshly initialised with the same regions and settings and receives
PrintStarted.  Obligations:
  (state)     every behaviour-relevant tracked attribute of A equals B's (by determinism this gives equality of
              behaviour on every later program);
  (behaviour) a probe program of K commands with symbolic numbers is run through both hooks; results are equal
              as RS274 readings (same kind, same codes, same letters, equal numbers).
"""
from symx import alg
from harness.base import Scenario
from harness import pipeline as pl, plugin_util as pu
from harness.c11 import snapshot, same_data
from oracles import rs274
from harness.pipeline import S

PROPERTY = "C10"

HISTORY = ["PRINT_STARTED", "PRINT_CANCELLED", "PRINT_DONE", "ENTER", "MOVE_OUT", "DEFERRED", "AT_OFF", "G20", "G91",
           "RETRACT", "RECOVER", "G92E", "M206", "G10", "ZMOVE", "FEED"]
PROBE = [S("G1", "X# Y# E#"), S("G1", "X#"), S("G1", "E#"), S("G1", "Z#"), S("G11", ""), S("M204", "P#"), S("G20"), S("G91")]


def same_result(w, ra, rb):
    if ra is None or rb is None or isinstance(ra, tuple) or isinstance(rb, tuple):
        return ra == rb
    if not (isinstance(ra, list) and isinstance(rb, list)) or len(ra) != len(rb):
        return False
    conds = []
    for a, b in zip(ra, rb):
        ca, cb = rs274.read(a), rs274.read(b)
        if ca.code != cb.code or ca.letters() != cb.letters():
            return False
        for (l, va), (_, vb) in zip(ca.words, cb.words):
            if (va is None) != (vb is None):
                return False
            if va is not None:
                conds.append(alg.eq(w.resolve_number(va), w.resolve_number(vb)))
    return alg.and_(*conds) if conds else True


def scen(w, H=2, K=1):
    ext = [{"gcode": "M204", "mode": "merge", "description": ""}]
    A = pu.make_plugin(w, extended=ext, exit_="M117 out\n", enter="M117 in\n")
    Events = pu.events(w)
    spec = pl.fresh_region(w, "rect", "r0")
    pa = pl.Pipe(w, plugin=A, track_p=False)
    pa.add_region(spec)
    comm = pu.CommStub()
    started = False
    for h in range(H):
        item = HISTORY[w.choose(len(HISTORY), "hist")]
        w.cover("hist-" + item)
        pa.program.append("<%s>" % item)
        if item in ("PRINT_STARTED", "PRINT_CANCELLED", "PRINT_DONE"):
            pu.fire(A, item)
            if item == "PRINT_STARTED":
                started = True
                pa.feed("G28", catch=False)
            continue
        if not started:
            # commands only have an effect on the tracked state while a print is active
            pu.fire(A, "PRINT_STARTED")
            started = True
            pa.feed("G28", catch=False)
        n = pa.k
        if item == "ENTER":
            rec = pa.begin("G1 X%s Y%s E%s" % (w.key(w.real("h%d_X" % n)), w.key(w.real("h%d_Y" % n)),
                                               w.key(w.real("h%d_E" % n))))
            w.assume(rec.dest_inside)
            pa.finish(catch=False)
        elif item == "MOVE_OUT":
            rec = pa.begin("G1 X%s Y%s" % (w.key(w.real("h%d_X" % n)), w.key(w.real("h%d_Y" % n))))
            w.assume(alg.not_(rec.dest_inside))
            pa.finish(catch=False)
        elif item == "DEFERRED":
            pa.feed("M204 P%s" % w.key(w.real("h%d_P" % n)), catch=False)
        elif item == "AT_OFF":
            A.handleAtCommandQueuing(comm, "queuing", "ExcludeRegion", "off")
        elif item in ("G20", "G91"):
            pa.feed(item, catch=False)
        elif item == "RETRACT":
            e = w.real("h%d_E" % n)
            w.assume(e * pa.V.u < pa.V.e)
            pa.feed("G1 E%s" % w.key(e), catch=False)
        elif item == "RECOVER":
            e = w.real("h%d_E" % n)
            w.assume(e * pa.V.u > pa.V.e)
            pa.feed("G1 E%s" % w.key(e), catch=False)
        elif item == "G92E":
            pa.feed("G92 E%s" % w.key(w.real("h%d_E" % n)), catch=False)
        elif item == "M206":
            pa.feed("M206 X%s" % w.key(w.real("h%d_X" % n)), catch=False)
        elif item == "G10":
            pa.feed("G10", catch=False)
        elif item == "ZMOVE":
            pa.feed("G1 Z%s F%s" % (w.key(w.real("h%d_Z" % n)), w.key(w.real("h%d_F" % n))), catch=False)
        elif item == "FEED":
            pa.feed("G1 F%s" % w.key(w.real("h%d_F" % n)), catch=False)
    history = list(pa.program)
    pu.fire(A, "PRINT_STARTED")
    snap_a = snapshot(A.state)
    list_a = [r.toDict() for r in A.state.excludedRegions]
    # fresh plugin with the same regions and settings
    B = pu.make_plugin(w, extended=ext, exit_="M117 out\n", enter="M117 in\n")
    pb = pl.Pipe(w, plugin=B, track_p=False)
    pb.add_region(spec)
    pu.fire(B, "PRINT_STARTED")
    desc = "history %r then PrintStarted" % (history,)
    w.note("program", history)
    if not w.check(same_data(snap_a, snapshot(B.state)), "tracked-state-equals-fresh-plugin", desc):
        return
    # behavioural probe: same program through both
    pa.V.__init__(w, False, "V")
    pa.ep = pb.ep = False
    pa.enabled = pb.enabled = True
    for p in (pa, pb):
        p.begin("G28")
        p.finish(catch=False)
    for k in range(K):
        shape = PROBE[w.choose(len(PROBE), "probe")]
        text, _ = pl.render(w, shape, 100 + k)
        pa.begin(text)
        ra = pa.finish().result
        pb.begin(text)
        rb = pb.finish().result
        w.cover("probe-" + shape.tag)
        if not w.check(same_result(w, ra, rb), "output-equals-fresh-plugin",
                       "%s ; probe %r -> used plugin %r, fresh plugin %r" % (desc, text, ra, rb)):
            return


SCENARIOS = {"history": scen}

META = {
    "assumptions": ["OctoPrint injections stubbed; one rectangular region kept across the history; settings unchanged",
                    "history alphabet: events, entering/leaving moves, deferred code, disable @-command, G20, G91, "
                    "retract/recover, G92 E, M206, G10, Z and feed-rate changes"],
    "outside_claim": ["histories longer than H steps (the state comparison covers every later program; the history bound "
                      "limits which residues are produced)", "settings changed between the prints"],
}


def plan(tier):
    cov = ["hist-" + h for h in HISTORY]
    pc = ["probe-" + s.tag for s in PROBE]
    if tier == "quick":
        cfg = [("history-h2-k1", 2, 1), ("history-h1-k2", 1, 2)]
    else:
        cfg = [("history-h3-k1", 3, 1), ("history-h2-k2", 2, 2)]
    out = []
    for name, H, K in cfg:
        SCENARIOS[name] = scen
        out.append(Scenario(name, scen, params={"H": H, "K": K}, cover=cov + pc,
                            bounds={"history steps": H, "probe commands": K}))
    return out


plan("quick")
plan("thorough")
